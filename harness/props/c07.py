"""C07 - content the model does not use has no effect on any result."""
from .. import common, observe, pdbgen
from . import c13, c04

SPEC = dict(
    claim="Lean theorems on the concrete line parser (the only reader of the file's text): every record that is not ATOM/HETATM/MODEL/"
          "TER and every ATOM/HETATM record of a residue configured as ignorable can be inserted or removed freely - the parser's "
          "output is that of the file without them (induction over lines; such a line leaves the bookkeeping state untouched and emits "
          "nothing); inside a chain an ATOM record that is not a terminal oxygen (a hydrogen in particular) leaves the bookkeeping "
          "untouched; two lines that agree on columns 1-6 and 13-54 give atom records with the same used fields whatever the serial, "
          "occupancy, B-factor, element and charge columns hold (element is inferred from columns 13-14). The parser model is compared "
          "with the real parser on every edited file; edited-vs-original runs of the real pipeline under {default, --protonate-all, -k} "
          "must agree on every record and on the .pka text; --protonate-all must not change any pKa; feeding the program's own "
          "hydrogens back with -k must reproduce the results for amino-acid structures. Lifted to the whole program (Props/Program.lean, on Program.run: parser, top-up, set-up pipeline, scoring): program_unused_records (ignorable residues and non-ATOM/HETATM/MODEL/TER records change nothing the program computes - no atom, hydrogen, group, determinant or pKa) and program_reads_used_fields (two texts whose parsed records agree in the used fields give the same results: serial numbers, occupancies and B-factors never influence predictions); Program.run is compared with the real program on the texts this check runs, including -k inputs with hydrogens closer than 1.5 A.",
    note="That nothing downstream reads occupancy/B-factor/serial is established by the edited-vs-original runs (the theorem covers the "
         "parser). The protonate-all and keep-protons round-trip clauses are metamorphic checks of the real pipeline, not theorems; "
         "hydrogens inserted at a chain start can capture the N+ tag (the theorem's hypothesis 'inside a chain' excludes exactly that).",
    technique="Lean 4 proof (induction over lines on the parser model; column-slice congruence) + differential correspondence + metamorphic runs",
    lean=["Propka.Props.C07", "Propka.Props.Program"],
    rule="test files and library structures x edits: waters and other ignorable residues, junk records, input hydrogens inside residues, "
         "random serial/occupancy/B/element/charge columns, x {default, --protonate-all, -k}; non-trivial = an edit that changes the "
         "text of a structure with ionizable groups",
    assumptions=["ASCII input"],
)


SERIAL_STYLES = ["zero", "random", "wrap", "negative", "random"]
_calls = [0]


_his_done = [False]


def noise_columns(rnd, lines, style=None):
    out = []
    # serial numbers: random (mostly unique), all equal, wrapping around every few atoms, or negative
    if style is None:
        style = SERIAL_STYLES[_calls[0] % len(SERIAL_STYLES)]
        _calls[0] += 1
    wrap = rnd.randint(2, 9)
    n = 0
    for l in lines:
        if pdbgen.is_atom(l):
            body = l.rstrip("\n").ljust(80)
            n += 1
            serial = {"random": "%5d" % rnd.randint(1, 99999), "zero": "    0", "wrap": "%5d" % (n % wrap), "negative": "%5d" % -(n % 9999)}[style]
            occ = "%6.2f" % rnd.uniform(0, 1)
            bf = "%6.2f" % rnd.uniform(0, 99)
            elem = rnd.choice([" C", " N", " O", "XX", "  ", "ZN"])
            chg = rnd.choice(["  ", "1+", "2-"])
            body = body[:6] + serial + body[11:54] + occ + bf + body[66:76] + elem + chg
            l = body.rstrip() + "\n" if rnd.random() < 0.2 else body + "\n"
        out.append(l)
    return out


def add_hydrogens_inside(rnd, lines):
    """input hydrogens placed after a heavy atom of a residue that is not the first of its chain segment"""
    items = pdbgen.split_residues(lines)
    out = []
    seen_res = 0
    for it in items:
        if it[0] == "rec":
            out += it[2]
            if it[2][0].startswith(("TER", "MODEL")):
                seen_res = 0
            continue
        seen_res += 1
        out += it[2]
        if seen_res >= 2 and it[2][0].startswith("ATOM") and rnd.random() < 0.5 and not any(l[12:16].strip() in ("OXT", "O''") for l in it[2]):
            src = rnd.choice(it[2])
            x, y, z = pdbgen.coords(src)
            # names as written by other programs: from column 14 (" H  ", " HB1"), four characters from column 13
            # ("HH11", "HD21") and the old digit-first style ("1HH1", "2HB ")
            h = pdbgen.setcols(src, 12, 16, rnd.choice([" H  ", " HA ", " HB1", "HH11", "HD21", "HG12", "1HH1", "2HB ", " HZ3"]))
            h = pdbgen.setcols(h, 76, 78, " H")
            if rnd.random() < 0.4:
                # an alternate-location tag (or none) that differs from the heavy atom's: ignored hydrogens define no conformation
                h = pdbgen.setcols(h, 16, 17, rnd.choice(["Z", "C", "3", " "]))
            h = pdbgen.set_coords(h, x + 0.6, y + 0.6, z + 0.5)
            out.append(h)
    return out


def three_conf_partial(rnd):
    """a fragment in which the side chain of one ionizable residue has alternates A and B (B displaced by 0.3-0.6 A) and one
    atom of another residue has alternates A, B and C: conformation C has to take the side chain from A or from B"""
    for _ in range(40):
        lines = pdbgen.relabel(pdbgen.fragment(rnd, nres=rnd.randint(4, 8)), chain="A")
        items = pdbgen.split_residues(lines)
        res = [k for k, it in enumerate(items) if it[0] == "res" and it[2][0].startswith("ATOM")]
        ion = [k for k in res if items[k][1][3] in ("ASP", "GLU", "HIS", "TYR", "LYS", "ARG")]
        if not ion or len(res) < 2:
            continue
        k1 = rnd.choice(ion)
        k2 = rnd.choice([k for k in res if k != k1])
        sh = [rnd.choice([-1, 1]) * rnd.uniform(0.3, 0.6) for _ in range(3)]
        new = []
        for l in items[k1][2]:
            if l[12:16].strip() in ("N", "CA", "C", "O"):
                new.append(l)
            else:
                x, y, z = pdbgen.coords(l)
                new.append(pdbgen.setcols(l, 16, 17, "A"))
                new.append(pdbgen.set_coords(pdbgen.setcols(l, 16, 17, "B"), x + sh[0], y + sh[1], z + sh[2]))
        items[k1] = ("res", items[k1][1], new)
        l0 = items[k2][2][-1]
        x, y, z = pdbgen.coords(l0)
        items[k2] = ("res", items[k2][1], items[k2][2][:-1] + [pdbgen.set_coords(pdbgen.setcols(l0, 16, 17, tg), x + 0.04 * j, y, z - 0.03 * j) for j, tg in enumerate("ABC")])
        return pdbgen.flatten(items)
    return None


def edits(rnd, lines):
    out = []
    e = pdbgen.insert_at_random(rnd, lines, pdbgen.JUNK, rnd.randint(2, 6))
    out.append(("junk records", [l for l in e if not l.startswith(("TER", "ENDMDL", "MODEL")) or l in lines]))
    e = list(lines)
    for _ in range(rnd.randint(2, 8)):
        e = pdbgen.insert_at_random(rnd, e, pdbgen.water(rnd, lines, resname=rnd.choice(["HOH", "HOH", "SO4", "PEG", "H2O"])))
    out.append(("ignorable residues", e))
    out.append(("column noise", noise_columns(rnd, lines)))
    if not _his_done[0] and any(pdbgen.is_atom(l) and l[17:20] == "HIS" for l in lines):
        # the first structure with a ring that the set-up searches (histidine) gets every style of serial numbers, whichever
        # style the rotation above has reached: a search that follows serial numbers must meet equal and repeating ones
        _his_done[0] = True
        for st in ("zero", "wrap", "negative"):
            out.append(("column noise", noise_columns(rnd, lines, st)))
    out.append(("input hydrogens", add_hydrogens_inside(rnd, lines)))
    return out


def same(a, b, tol=0.0):
    if a.error or b.error:
        return ["error %r vs %r" % (a.error, b.error)] if a.error != b.error else []
    d = []
    if list(a.confs) != list(b.confs):
        return ["conformations %r vs %r" % (list(a.confs), list(b.confs))]
    for c in a.confs:
        d += observe.compare_groups(a.confs[c], b.confs[c], tol=tol)[:2]
    if a.text is not None and b.text is not None and a.text != b.text:
        d.append(".pka text differs")
    return d


D21 = "D21:protonate-all-incomplete-planar-centre"


def d21_only(a, b):
    """a = default run, b = --protonate-all run of one text.  True iff the hydrogens the default run built differ between the two runs
    only on atoms that were protonated by the one-neighbour trigonal rule next to an atom whose memoised steric number differs between
    the runs (a planar centre that lost a substituent: alone it is never protonated and keeps the steric number computed with zero
    protons to add; under --protonate-all it is protonated first) - the recorded finding D21"""
    ok_any = False
    for cname in a.mol.conformation_names:
        ca, cb = a.mol.conformations[cname], b.mol.conformations.get(cname)
        if cb is None:
            return False
        key = lambda at: (at.chain_id, at.res_num, at.icode, at.name)
        hb = {key(at): sorted((h.x, h.y, h.z) for h in at.bonded_atoms if h.element == "H") for at in cb.atoms if at.element != "H"}
        sb = {key(at): at.steric_number for at in cb.atoms if at.element != "H"}
        for at in ca.atoms:
            if at.element == "H":
                continue
            ha = sorted((h.x, h.y, h.z) for h in at.bonded_atoms if h.element == "H")
            if not ha:
                continue
            other = hb.get(key(at), [])
            same_h = len(ha) == len(other) and all(abs(p - q) <= 1e-9 for x, y in zip(ha, other) for p, q in zip(x, y))
            if same_h:
                continue
            heavy = [n for n in at.bonded_atoms if n.element != "H"]
            if len(heavy) == 1 and at.steric_number == 3 and sb.get(key(heavy[0])) != heavy[0].steric_number:
                ok_any = True
            else:
                return False
    return ok_any


def run(ctx):
    rnd = ctx.rng
    _calls[0] = 0
    _his_done[0] = False
    from propka.parameters import Parameters
    from propka.input import read_parameter_file
    ignore = read_parameter_file("propka.cfg", Parameters()).ignore_residues
    import json
    inputs = []
    # witnesses of listed findings run first, so that a listed finding is reported on every run while it persists
    for f in sorted(common.CORPUS.glob("C07-*.json")):
        inputs.append(("gen-corpus:" + f.name, json.loads(f.read_text())["replay"]["pdb"]))
    inputs += [(n, t) for n, t in pdbgen.test_files(["1HPX", "sample-issue-140", "conf-alt-AB"] if ctx.quick() else ["1HPX", "3SGB", "4DFR", "sample-issue-140", "conf-alt-AB", "conf-model-mutant"])]
    # a ligand whose recognition counts bonded atoms (an amidinium carbon with two terminal nitrogens): under --protonate-all the
    # nitrogens carry their hydrogens before the groups are extracted
    bl, _ = pdbgen.multichain(rnd, nchains=1)
    inputs.append(("gen-benzamidine", pdbgen.text(pdbgen.add_benzamidine(bl))))
    # incomplete residues (the hetero atoms at the end of a side chain are gone): --protonate-all must still change nothing
    for i in range(2 if ctx.quick() else 30):
        lines, ids = pdbgen.multichain(rnd, nchains=1)
        inputs.append(("gen-incomplete%d" % i, pdbgen.text(pdbgen.truncate_sidechains(rnd, lines, rnd.randint(1, 3), types=rnd.choice([None, ("ARG", "ASN", "GLN"), ("HIS", "ARG")])))))
    for i in range(6 if ctx.quick() else 60):
        lines, ids = pdbgen.multichain(rnd, nchains=rnd.randint(1, 2), separation=25.0)
        inputs.append(("gen%d" % i, pdbgen.text(lines)))
    # three conformations of which one lacks atoms that the other two hold at different positions: completing it is a choice
    # between two sources, which must not look at the unused columns (occupancy, B factor, serial number)
    for i in range(3 if ctx.quick() else 12):
        tl = three_conf_partial(rnd)
        if tl is not None:
            inputs.append(("alt3-%d" % i, pdbgen.text(tl)))
            ctx.count("three-conformation inputs with a two-source completion")
    ebad, pbad, kbad = [], [], []
    reqs, reals = [], []
    for name, text in inputs:
        lines = pdbgen.lines_of(text)
        modes = [[], ["--protonate-all"], ["-k"]] if (not ctx.quick() or name.startswith("gen") or name == "sample-issue-140") else [[]]
        base = {tuple(m): observe.run(text, m, want_text=True) for m in modes}
        ngroups = len(base[()].confs.get("AVR", []))
        for kind, ed in edits(rnd, lines):
            et = pdbgen.text(ed)
            if et == text:
                continue
            for m in modes:
                if kind == "input hydrogens" and m == ["-k"]:
                    continue        # with keep-protons the supplied hydrogens are part of the input by definition
                o = observe.run(et, m, want_text=True)
                ctx.case(key=(name, kind, tuple(m), hash(et)), nontrivial=ngroups > 0)
                ctx.count(kind)
                d = same(base[tuple(m)], o)
                if d:
                    ebad.append((name, kind, m, d[:3], et, text))
            reqs.append(c13.model_req(et, False, []))
            reals.append(c13.real_parse(et, False, None, ignore))
        # --protonate-all does not change any pKa
        if ["--protonate-all"] in modes:
            a, b = base[()], base[("--protonate-all",)]
            if not (a.error or b.error):
                d = []
                for c in a.confs:
                    d += observe.compare_groups(a.confs[c], b.confs[c], tol=1e-9, dets=True)[:2]
                ctx.case(key=(name, "protonate-all"))
                if d and d21_only(a, b):
                    ctx.violate(D21, "%s: --protonate-all changes results: %s" % (name, "; ".join(d[:2])), dict(pdb=text, diffs=d[:3]))
                elif d:
                    pbad.append((name, d[:3], text))
        # feeding the program's own hydrogens back with -k reproduces the results (amino-acid structures, one conformation)
        b0 = base[()]
        if not b0.error and len(b0.mol.conformation_names) == 1 and all(l.startswith("ATOM") or not pdbgen.is_atom(l) for l in lines):
            hl = c04.dump_with_h(b0, text)
            o = observe.run(pdbgen.text(hl), ["-k"], want_text=False)
            ctx.case(key=(name, "keep-protons round trip"))
            ctx.count("keep-protons round trips")
            if o.error:
                kbad.append((name, ["error %r" % (o.error,)], pdbgen.text(hl), text))
            else:
                ra = {(g["key"], g["type"]): g for g in b0.confs[b0.mol.conformation_names[0]]}
                rb = {(g["key"], g["type"]): g for g in o.confs[o.mol.conformation_names[0]]}
                d = []
                for k, x in ra.items():
                    y = rb.get(k)
                    if y is None:
                        d.append("%s missing after the round trip" % x["label"])
                    elif abs(x["pka"] - y["pka"]) > 1e-9:
                        d.append("%s pKa %r vs %r after the round trip" % (x["label"], x["pka"], y["pka"]))
                if d:
                    kbad.append((name, d[:3], pdbgen.text(hl), text))
    # the hydrogens of a --protonate-all run fed back with -k: every atom is saturated, so the -k run builds nothing and must report
    # what the --protonate-all run reported.  Directed inputs: a donor nitrogen placed 2.6-3.0 A from a hydroxyl oxygen, kept when the
    # program's own hydrogens on the two residues come closer than 1.5 A to each other (two hydrogens are never bonded, however close)
    pa_inputs = [(n, t) for n, t in inputs if n.startswith("gen")][:(2 if ctx.quick() else 10)]
    found = 0
    for k in range(40 if ctx.quick() else 400):
        if found >= (2 if ctx.quick() else 10):
            break
        pc = pdbgen.polar_contact(rnd, first=("TYR", "OH"), partner=rnd.choice([("LYS", "NZ"), ("ARG", "NH1"), ("ARG", "NH2")]))
        if pc is None:
            continue
        t = pdbgen.text(pc)
        op = observe.run(t, ["--protonate-all"], want_text=False)
        if op.error:
            continue
        hs = [(a.x, a.y, a.z, a.bonded_atoms[0].res_num, a.bonded_atoms[0].chain_id) for a in op.mol.conformations[op.mol.conformation_names[0]].atoms
              if a.element == "H" and a.bonded_atoms and a.bonded_atoms[0].name in ("OH", "NZ", "NH1", "NH2")]
        close = any(x[3:] != y[3:] and (x[0] - y[0]) ** 2 + (x[1] - y[1]) ** 2 + (x[2] - y[2]) ** 2 < 2.25 for i, x in enumerate(hs) for y in hs[i + 1:])
        if close:
            found += 1
            pa_inputs.append(("h-h-contact%d" % k, t))
            ctx.count("keep-protons round trips with two hydrogens closer than 1.5 A")
    for name, text in pa_inputs:
        op = observe.run(text, ["--protonate-all"], want_text=False)
        if op.error or len(op.mol.conformation_names) != 1 or not all(l.startswith("ATOM") or not pdbgen.is_atom(l) for l in pdbgen.lines_of(text)):
            continue
        hl = c04.dump_with_h(op, text)
        o = observe.run(pdbgen.text(hl), ["-k"], want_text=False)
        if name.startswith("h-h-contact"):
            # these texts also go through the program-level correspondence (the model never bonds two hydrogens)
            ctx.program_extra = getattr(ctx, "program_extra", []) + [(name + " -k", pdbgen.text(hl), ("-k",))]
        ctx.case(key=(name, "keep-protons round trip of the --protonate-all hydrogens"))
        ctx.count("keep-protons round trips (hydrogens of a --protonate-all run)")
        if o.error:
            kbad.append((name, ["error %r" % (o.error,)], pdbgen.text(hl), text))
            continue
        ra = {(g["key"], g["type"]): g for g in op.confs[op.mol.conformation_names[0]]}
        rb = {(g["key"], g["type"]): g for g in o.confs[o.mol.conformation_names[0]]}
        d = []
        for kk, x in ra.items():
            y = rb.get(kk)
            if y is None:
                d.append("%s missing after the round trip" % x["label"])
            elif abs(x["pka"] - y["pka"]) > 1e-9:
                d.append("%s pKa %r vs %r after the round trip of the --protonate-all hydrogens" % (x["label"], x["pka"], y["pka"]))
        if d:
            kbad.append((name, d[:3], pdbgen.text(hl), text))
    for b in ebad[:3]:
        ctx.violate("unused-content:" + b[1].replace(" ", "-"), "%s edited (%s) %r: %s" % (b[0], b[1], b[2], "; ".join(b[3])), dict(pdb=b[4], original=b[5], args=b[2], diffs=b[3]))
    ctx.oblige("spec: junk records, ignorable residues, column noise and input hydrogens change no result and not the .pka text", not ebad, str([(b[0], b[1], b[2], b[3][:1]) for b in ebad[:2]]))
    for b in pbad[:2]:
        ctx.violate("protonate-all:" + b[0], "%s: --protonate-all changes results: %s" % (b[0], "; ".join(b[1])), dict(pdb=b[2], diffs=b[1]))
    ctx.oblige("spec: --protonate-all changes no pKa and no determinant", not pbad, str([(b[0], b[1][:1]) for b in pbad[:2]]))
    for b in kbad[:2]:
        ctx.violate("keep-protons-roundtrip:" + b[0], "%s: feeding the program's own hydrogens back with -k: %s" % (b[0], "; ".join(b[1])), dict(pdb=b[2], original=b[3], diffs=b[1]))
    ctx.oblige("spec: the program's own hydrogens fed back with -k reproduce the results (amino-acid structures)", not kbad, str([(b[0], b[1][:1]) for b in kbad[:2]]))
    if ctx.driver_ok:
        outs = common.driver_batch(reqs)
        dis = [(r[:80], m[:80]) for r, m in zip(reals, outs) if r != m and not (r.startswith("err") and m.startswith("err"))]
        ctx.oblige("correspondence: Lean parser model = real parser on %d edited files" % len(reqs), not dis, str(dis[:1]))
    else:
        ctx.oblige("correspondence: parser model = real parser", False, "driver not built")


def replay(ctx, rep):
    r = rep["replay"]
    if "original" in r:
        a, b = observe.run(r["original"], r.get("args", [])), observe.run(r["pdb"], r.get("args", []))
        d = same(a, b)
        print(d[:5])
        return 1 if d else 0
    return 0
