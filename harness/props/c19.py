"""C19 - hybrid-36 decoding: correspondence of the real `propka.hybrid36.decode` with the Lean model
`Propka.H36.decode`, evaluation of the specification on the real code, serial-column edits."""
import itertools
import re

from .. import common, observe, pdbgen

SPEC = dict(
    claim='Round trip decode(encode w n)=n for every width>=1 and every representable n, the exact representable range, rejection of every malformed field and well-formedness of everything accepted are Lean theorems about a model of hybrid36.decode (induction on digit lists, no enumeration). The model is tied to the code by exhaustive/differential comparison on ~20k fields per run (thorough: 12.5M), the real code is also compared with the format definition directly, and serial-column rewrites of whole structures must leave every result unchanged. program_reads_used_fields (Props/Program.lean): on the program model the serial number of a record is dropped right after parsing (Program.core), so two texts that differ only in serial numbers give identical results; the model is compared with the real program on this check\'s serial rewrites.',
    note='Trusted: Lean kernel, propext/Quot.sound/Classical.choice, the harness; ASCII/latin-1 fields only; Python int() on pure digit strings. The ASCII-order form of monotonicity is checked on the real code per run (sorted valid fields), the theorem proves monotonicity in the encoded value.',
    technique='Lean 4 proof (induction over base-36 digit lists) + exhaustive differential correspondence',
    lean=["Propka.Props.C19", "Propka.Props.Program"],
    rule="strings over the alphabet 0 9 5 A Z K a z k _ - + . space tab (exhaustive up to width 3 quick / 4 thorough), "
         "valid encodings at all segment boundaries of widths 1-5 plus random values, each padded and unpadded; "
         "a case is non-trivial when it is a distinct string; serial-column rewrites of whole structures",
    assumptions=["only ASCII/latin-1 fields are modelled", "Python int() on pure digit strings is decimal parsing"],
)

DIG_U = '0123456789ABCDEFGHIJKLMNOPQRSTUVWXYZ'
DIG_L = DIG_U.lower()


def b36(v, digs, width):
    r = ''
    for _ in range(width):
        r = digs[v % 36] + r
        v //= 36
    return r


def ref_encode(width, value):
    """independent reference encoder (the published hybrid-36 algorithm)"""
    if -10 ** (width - 1) < value < 10 ** width:
        return '%d' % value
    value -= 10 ** width
    if 0 <= value < 26 * 36 ** (width - 1):
        return b36(value + 10 * 36 ** (width - 1), DIG_U, width)
    value -= 26 * 36 ** (width - 1)
    if 0 <= value < 26 * 36 ** (width - 1):
        return b36(value + 10 * 36 ** (width - 1), DIG_L, width)
    return None


SPEC_RE = re.compile(r'^(-?)([0-9]+|[A-Z][A-Z0-9]*|[a-z][a-z0-9]*)$')
PY_SPACE = ' \t\n\r\x0b\x0c\x1c\x1d\x1e\x1f'


def spec_decode(s):
    """what the property demands: value of a well-formed field, 'ValueError' otherwise"""
    t = s.strip(PY_SPACE)
    m = SPEC_RE.match(t)
    if not m:
        return 'ValueError'
    sign = -1 if m.group(1) else 1
    body = m.group(2)
    n = len(body)
    if body[0].isdigit():
        return 'ok %d' % (sign * int(body))
    if body[0].isupper():
        return 'ok %d' % (sign * (int(body, 36) - 10 * 36 ** (n - 1) + 10 ** n))
    return 'ok %d' % (sign * (int(body, 36) + 16 * 36 ** (n - 1) + 10 ** n))


def real_decode(s):
    from propka import hybrid36
    try:
        return 'ok %d' % hybrid36.decode(s)
    except ValueError:
        return 'ValueError'
    except Exception as e:  # any other failure is itself a violation of "rejected with ValueError"
        return 'EXC ' + type(e).__name__


def cases(ctx):
    alpha = "095AZKazk_-+. \t"
    maxw = 3 if ctx.quick() else 4
    out = [''.join(t) for w in range(0, maxw + 1) for t in itertools.product(alpha, repeat=w)]
    ctx.count("exhaustive_strings", len(out))
    rnd = ctx.rng
    valid = []
    for w in range(1, 6):
        lo, hi = 1 - 10 ** (w - 1), 10 ** w + 52 * 36 ** (w - 1) - 1
        pts = {lo, lo + 1, -1, 0, 1, 9, 10, 10 ** w - 1, 10 ** w, 10 ** w + 1, 10 ** w + 26 * 36 ** (w - 1) - 1,
               10 ** w + 26 * 36 ** (w - 1), hi - 1, hi}
        pts |= {rnd.randint(lo, hi) for _ in range(1500 if ctx.quick() else 20000)}
        for v in sorted(pts):
            if lo <= v <= hi:
                e = ref_encode(w, v)
                valid.append((w, v, e))
                out.append(e)
                out.append(e.rjust(w))
                out.append(' ' * rnd.randint(0, 3) + e + ' ' * rnd.randint(0, 2))
        # out of range on both sides must not be encodable; their natural spellings are other-width fields
    # mutations of valid fields: case flips, underscores, inner blanks, signs
    for (w, v, e) in rnd.sample(valid, min(len(valid), 1500)):
        i = rnd.randrange(len(e) + 1)
        out.append(e[:i] + rnd.choice("_ +-.aZ") + e[i:])
        if len(e) > 1:
            j = rnd.randrange(len(e))
            out.append(e[:j] + e[j].swapcase() + e[j + 1:])
    # a few longer fields (serial fields are 5 wide, but decode takes any width)
    for _ in range(300):
        w = rnd.randint(6, 9)
        out.append(''.join(rnd.choice(DIG_U if rnd.random() < .5 else DIG_L) for _ in range(w)))
    ctx.count("valid_encodings", len(valid))
    return out, valid


def run(ctx):
    strings, valid = cases(ctx)
    uniq = list(dict.fromkeys(strings))
    real = [real_decode(s) for s in uniq]
    spec = [spec_decode(s) for s in uniq]
    ctx.evaluations += len(uniq)
    ctx.nontrivial.update(uniq if len(uniq) < 400000 else uniq[:400000])
    for s in uniq[1000:1003] + [v[2] for v in valid[:3]]:
        ctx.sample(dict(field=s, real=real_decode(s), spec=spec_decode(s)))
    # (1) specification evaluated on the implementation: this is the failing-input search
    bad_spec = [(s, r, e) for s, r, e in zip(uniq, real, spec) if r != e]
    for s, r, e in bad_spec[:5]:
        sig = "D8:digit-segment-accepts-non-digits" if (s.strip(PY_SPACE).lstrip('-')[:1].isdigit() and r.startswith('ok')) else "decode:" + repr(s)
        ctx.violate(sig, "decode(%r) = %s but the format demands %s" % (s, r, e),
                    dict(call="propka.hybrid36.decode", field=s, got=r, expected=e))
    ctx.oblige("spec: real decode = format definition on %d fields" % len(uniq), not bad_spec,
               "%d differences, first %r" % (len(bad_spec), bad_spec[:1]))
    # (2) round trip through the reference encoder and monotonicity along the encoding order
    mono_bad = []
    for w in range(1, 6):
        fields = sorted({e.rjust(w) for (ww, v, e) in valid if ww == w and v >= 0})
        vals = [real_decode(f) for f in fields]
        nums = [int(x[3:]) if x.startswith('ok') else None for x in vals]
        for a, b, fa, fb in zip(nums, nums[1:], fields, fields[1:]):
            if a is None or b is None or not a < b:
                mono_bad.append((fa, fb, a, b))
    for fa, fb, a, b in mono_bad[:3]:
        ctx.violate("mono:%r<%r" % (fa, fb), "fields %r < %r in ASCII order decode to %r, %r" % (fa, fb, a, b),
                    dict(call="propka.hybrid36.decode", fields=[fa, fb], got=[a, b]))
    ctx.oblige("spec: decoding strictly increasing along the encoding order (widths 1-5)", not mono_bad, str(mono_bad[:2]))
    # (3) correspondence with the Lean model
    if ctx.driver_ok:
        reqs = ["h36 dec " + s.encode('latin1').hex() for s in uniq]
        model = common.driver_batch(reqs)
        dis = [(s, r, m) for s, r, m in zip(uniq, real, model) if r != m]
        ctx.oblige("correspondence: Lean decode = real decode on %d fields" % len(uniq), not dis,
                   "%d disagreements, first %r" % (len(dis), dis[:2]))
        # model encoder vs reference encoder (ties `encode` of the theorems to the published format)
        reqs = ["h36 enc %d %d" % (w, v) for (w, v, e) in valid]
        menc = common.driver_batch(reqs)
        dis2 = [(w, v, e, m) for (w, v, e), m in zip(valid, menc) if m != "ok " + e]
        ctx.oblige("correspondence: Lean encode = reference encoder on %d values" % len(valid), not dis2, str(dis2[:2]))
        ctx.evaluations += len(valid)
        if not ctx.quick():
            sweep(ctx)
    else:
        ctx.oblige("correspondence: Lean decode = real decode", False, "driver not built")
    # (4) atom serials never influence predictions
    serial_edits(ctx)


def sweep(ctx):
    """thorough: every 7th valid width-5 value (12.5 M), real decode of the reference encoding"""
    import multiprocessing as mp
    lo, hi = -9999, 87440031
    chunks = [(a, min(a + 2000000, hi + 1)) for a in range(lo, hi + 1, 2000000)]
    with mp.Pool(16) as pool:
        res = pool.map(_sweep_chunk, chunks)
    n = sum(r[0] for r in res)
    bad = [b for r in res for b in r[1]]
    ctx.evaluations += n
    ctx.count("width5_sweep_values", n)
    for v, e, got in bad[:3]:
        ctx.violate("sweep:%d" % v, "decode(%r) = %s, expected %d" % (e, got, v), dict(field=e, got=got, expected=v))
    ctx.oblige("spec: real decode(reference encode(n)) = n on a stride-7 sweep of all width-5 values (%d)" % n, not bad, str(bad[:2]))


def _sweep_chunk(ab):
    from propka import hybrid36
    a, b = ab
    bad, n = [], 0
    for v in range(a, b, 7):
        e = ref_encode(5, v)
        n += 1
        try:
            got = hybrid36.decode(e)
        except Exception as ex:  # noqa: BLE001
            got = type(ex).__name__
        if got != v and len(bad) < 5:
            bad.append((v, e, got))
    return n, bad


def serial_edits(ctx):
    files = list(pdbgen.test_files(["1FTJ-Chain-A", "3SGB-subset", "conf-alt-AB"] if ctx.quick() else None))
    # three conformations, one of which has to be completed with atoms that exist in both others: which copy is taken must not
    # depend on the serial numbers
    from . import c08
    for i in range(2 if ctx.quick() else 10):
        for _ in range(30):
            frag = pdbgen.relabel(pdbgen.fragment(ctx.rng, nres=ctx.rng.randint(4, 9)), chain="A")
            alt = c08.altloc_variant(ctx.rng, frag, 5)
            if any(l[16:17] == "C" for l in alt):
                files.append(("three-conformations-%d" % i, pdbgen.text(alt)))
                break
    nbad = 0
    for name, text in files:
        base = observe.run(text, want_text=True)
        natoms = sum(1 for line in text.split("\n") if line[:6] in ("ATOM  ", "HETATM"))
        for variant in range(3 if ctx.quick() else 6):
            lines = []
            k = 0
            for line in text.split("\n"):
                if line[:6] in ("ATOM  ", "HETATM") and len(line) > 11:
                    k += 1
                    v = ctx.rng.choice([ctx.rng.randint(0, 99999), ctx.rng.randint(100000, 87440031), ctx.rng.randint(-9999, -1), 0])
                    if variant == 2:
                        v = natoms - k + 1          # descending: the reverse of the file order
                    line = line[:6] + ref_encode(5, v).rjust(5) + line[11:]
                lines.append(line)
            ed = observe.run("\n".join(lines), want_text=True)
            ctx.case(("serial", name, variant))
            same = (base.error == ed.error and base.text == ed.text and
                    all(not observe.compare_groups(base.confs[c], ed.confs.get(c, []), tol=0.0) for c in base.confs))
            if not same:
                nbad += 1
                if nbad <= 2:
                    ctx.violate("serial-influences:" + name, "rewriting the serial column of %s changes the results" % name,
                                dict(pdb="\n".join(lines), base_error=base.error, edited_error=ed.error))
    ctx.oblige("spec: serial-column rewrites leave all results and the .pka text unchanged", nbad == 0, "%d changed" % nbad)


def replay(ctx, rep):
    r = rep["replay"]
    if "field" in r:
        got, exp = real_decode(r["field"]), spec_decode(r["field"])
        print("decode(%r) = %s ; format demands %s" % (r["field"], got, exp))
        return 0 if got == exp else 1
    if "pdb" in r:
        o = observe.run(r["pdb"])
        print("error:", o.error)
        return 0
    print(rep)
    return 0
