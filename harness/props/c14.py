"""C14 - titrate_only: exactly the listed residues titrate, the rest stays as environment."""
from .. import common, observe, pdbgen

SPEC = dict(
    claim="Lean theorems on the census model (is_group + Group.setup + init_group, the only reader of the option): with a list L a "
          "group is titratable iff it is without the option and its (chain, number, insertion code) is in L; it is reported iff "
          "titratable or a listed CYS; class, type, residue type, charge, model pKa are untouched, so the same groups exist in the "
          "same order (environment kept); listing every residue equals no option; entries naming no residue, the order of the list "
          "and repeats are irrelevant. The census model is compared with the real groups under -i, and the four statements are "
          "evaluated on real runs (flags, reported set, full records and .pka text for 'all listed' and 'absent entries', "
          "desolvation/backbone terms of listed groups unchanged by unlisting others). The text of the option is modelled too (parse_res_string / parse_res_list): "
          "an entry chain:number is read as (chain, number, blank), chain:numberX as (chain, number, X) when the text after the colon is "
          "a number only without its last character, anything without exactly one colon is rejected, and the list is read entry by "
          "entry (entry_plain, entry_icode, entry_no_colon, list_is_mapM); the model is compared with lib.parse_res_list on generated "
          "well-formed and malformed texts. On the set-up pipeline model (Props/Pipeline.lean, for every input and table): titrate_only_keeps_environment (with any list the set-up builds the same hydrogens, atom states and groups - class, type, label, charge, model pKa, centre, interaction atoms - as without the option; only the titratable / exclude flags can differ), titrate_only_listed (every titratable group belongs to a listed residue), foldl_extractStep_all_listed (a list containing everything = no option); the program-level correspondence runs under --titrate_only.",
    note="The census model is trace-driven for bond-derived inputs. That unlisted residues still desolvate and hydrogen-bond is checked "
         "on the real pipeline (desolvation and backbone terms of listed groups are identical to the run without the option; side-chain "
         "partners keep appearing), not proved end-to-end. A blank chain is addressed as '_' (Atom.chain_id), not ' '.",
    technique="Lean 4 proof (case analysis on the census model, induction over atoms) + differential correspondence + metamorphic runs",
    lean=["Propka.Props.C14", "Propka.Props.Pipeline"],
    rule="test files and library structures x titrate-only lists: random subsets of residues, all residues, lists with absent entries, "
         "insertion-coded residues, duplicated/reordered lists; non-trivial = list hits at least one ionizable residue and misses one",
    assumptions=[],
)


def residues_of(text):
    out = []
    for l in pdbgen.lines_of(text):
        if pdbgen.is_atom(l):
            k = (l[21].strip() or "_", int(l[22:26]), l[26])
            if k not in out:
                out.append(k)
    return out


def to_arg(keys):
    return ",".join("%s:%d%s" % (c, n, i.strip()) for c, n, i in keys)


def flags(o):
    return {c: [(g["key"], g["type"], g["titratable"], g["use"]) for g in gs] for c, gs in o.confs.items() if c != "AVR"}


def gen_inputs(ctx):
    rnd = ctx.rng
    out = [(n, t) for n, t in pdbgen.test_files(["1HPX", "sample-issue-140", "conf-alt-AB-mutant"] if ctx.quick() else ["1HPX", "3SGB", "sample-issue-140", "conf-alt-AB-mutant", "conf-model-mutant"])]
    for i in range(6 if ctx.quick() else 60):
        lines, ids = pdbgen.multichain(rnd, nchains=rnd.randint(1, 2), chains="ABCDEFG")
        if i % 3 == 0:      # give two consecutive residues the same number, distinguished by insertion code
            items = pdbgen.split_residues(lines)
            res = [k for k, it in enumerate(items) if it[0] == "res"]
            if len(res) > 3:
                a, b = res[1], res[2]
                num = items[a][2][0][22:26]
                items[b] = ("res", None, [pdbgen.setcols(pdbgen.setcols(l, 22, 26, num), 26, 27, "A") for l in items[b][2]])
                lines = pdbgen.flatten(items)
        out.append(("gen%d" % i, pdbgen.text(lines)))
    # a free cysteine whose SG is hydrogen-bonded to an ionizable group of another residue: left out of the list it still is
    # that group's hydrogen-bond partner
    for partner in ((("LYS", "NZ"), ("TYR", "OH")) if ctx.quick() else (("LYS", "NZ"), ("TYR", "OH"), ("ARG", "NH1"), ("HIS", "NE2"), ("LYS", "NZ"))):
        cl = pdbgen.cys_contact(rnd, partner)
        if cl is not None:
            out.append(("cys-%s" % partner[0], pdbgen.text(cl)))
    # bridged cysteines named in the list stay non-titrating
    out.append(("ss-bridge", pdbgen.text(pdbgen.ss_fragment())))
    return out


def option_text_family(ctx):
    """the text of --titrate_only through the real parse_res_list and through the Lean model; the real option parser is also
    checked end to end (loadOptions gives the keys init_group compares with)"""
    import argparse
    from propka.lib import parse_res_list, loadOptions
    rnd = ctx.rng
    reqs, reals, bad = [], [], []
    chains = ["A", "B", "E", "I", "a", "2", "", " ", "AB"]
    for _ in range(300 if ctx.quick() else 6000):
        parts, want = [], []
        ok = True
        for _ in range(rnd.randint(1, 5)):
            kind = rnd.randrange(10)
            ch = rnd.choice(chains)
            n = rnd.choice([rnd.randint(-999, 9999), 0, 17, -5])
            ic = rnd.choice([" ", " ", "A", "B", "x", "P"])
            if kind < 7:
                parts.append("%s:%d%s" % (ch, n, "" if ic == " " else ic))
                want.append((ch, n, ic))
            else:
                parts.append(rnd.choice(["E17", "E:", ":", "E:1:2", "E:A", "E:1AB", "E:--1", "", "E:1 ", "E: 7", "E:+3", "E:1.5", "E:７"]))
                ok = False
        text = ",".join(parts)
        try:
            got = parse_res_list(text)
            real = ";".join("%s|%d|%s" % (c.encode("utf8").hex(), n, i.encode("utf8").hex()) for c, n, i in got) or "-"
        except argparse.ArgumentTypeError as e:
            got = None
            real = "err:colons" if "colon" in str(e) else "err:number"
        ctx.case(key=("reslist", text), nontrivial=got is not None)
        if ok and got != want:
            bad.append((text, got, want))
        if all(ord(c) < 128 for c in text) and "_" not in text:
            reqs.append("reslist parse " + (text.encode("ascii").hex() or "00"[:0]))
            reals.append(real)
    # end to end: the namespace loadOptions returns carries the parsed keys
    for text, want in (("E:17,E:48A", [("E", 17, " "), ("E", 48, "A")]), ("I:-5", [("I", -5, " ")])):
        o = loadOptions(["-i", text, "x.pdb"])
        if o.titrate_only != want:
            bad.append((text, o.titrate_only, want))
    for b in bad[:2]:
        ctx.violate("titrate-only-text", "--titrate_only %r is read as %r, written keys %r" % b, dict(option=b[0], got=str(b[1]), expected=str(b[2])))
    ctx.oblige("spec: well-formed --titrate_only texts are read as the keys they spell (%d texts)" % len(reqs), not bad, str(bad[:1]))
    if ctx.driver_ok:
        reqs2 = [q for q in reqs if q != "reslist parse "]
        reals2 = [r for q, r in zip(reqs, reals) if q != "reslist parse "]
        outs = common.driver_batch(reqs2)
        dis = [(bytes.fromhex(q.split(" ")[2]).decode(), r, m) for q, r, m in zip(reqs2, reals2, outs) if r != m]
        ctx.oblige("correspondence: Lean parse_res_list model = lib.parse_res_list (keys or kind of error; %d texts)" % len(reqs2), not dis, str(dis[:2]))
    else:
        ctx.oblige("correspondence: parse_res_list model = real code", False, "driver not built")


def run(ctx):
    rnd = ctx.rng
    option_text_family(ctx)
    bad_exact, bad_all, bad_absent, bad_env = [], [], [], []
    creqs, creals = [], []
    for name, text in gen_inputs(ctx):
        base = observe.run(text, [], want_text=True)
        if base.error:
            continue
        res = residues_of(text)
        bflags = flags(base)
        # (1) random sublists
        for rep in range(2 if ctx.quick() else 4):
            L = rnd.sample(res, max(1, len(res) // rnd.choice([2, 3, 5])))
            if name == "ss-bridge" and rep == 0:
                L = list(res)
            if rep == 1:
                L = L + L[:2]
                rnd.shuffle(L)
            o = observe.run(text, ["-i", to_arg(L)], want_text=False)
            fl = flags(o)
            Lset = set(L)
            hit = sum(1 for c in bflags for k, ty, t, u in bflags[c] if t and (k[0], k[1], k[2]) in Lset)
            miss = sum(1 for c in bflags for k, ty, t, u in bflags[c] if t and (k[0], k[1], k[2]) not in Lset)
            ctx.case(key=(name, tuple(L)), nontrivial=hit > 0 and miss > 0)
            ctx.count("sublists")
            if o.error or list(fl) != list(bflags):
                bad_exact.append((name, L, "error %r" % (o.error,), text))
                continue
            for c in bflags:
                if len(fl[c]) != len(bflags[c]):
                    bad_exact.append((name, L, "group list of %s changed length %d -> %d" % (c, len(bflags[c]), len(fl[c])), text))
                    break
                for (k0, ty0, t0, u0), (k, ty, t, u), g0, g in zip(bflags[c], fl[c], base.confs[c], o.confs[c]):
                    listed = (k[0], k[1], k[2]) in Lset
                    want_t = t0 and listed
                    want_u = want_t or (g["residue_type"] == "CYS" and listed)
                    if k != k0 or ty != ty0 or t != want_t or u != want_u:
                        bad_exact.append((name, L, "%s %r: titratable %s (want %s) reported %s (want %s)" % (c, k, t, want_t, u, want_u), text))
                        break
                    # environment: what does not depend on the partners' titratability is unchanged for listed groups
                    if t and t0:
                        for f in ("e_vol", "n_vol", "e_loc", "n_loc", "buried"):
                            if abs(g[f] - g0[f]) > 1e-9:
                                bad_env.append((name, L, "%s %s.%s %r vs %r without the option" % (c, g["label"], f, g[f], g0[f]), text))
                        if sorted(g["backbone"]) != sorted(g0["backbone"]):
                            bad_env.append((name, L, "%s %s backbone determinants changed" % (c, g["label"]), text))
                        # unlisted partners still act as hydrogen-bond partners
                        if not set(l for l, v in g0["sidechain"]) <= set(l for l, v in g["sidechain"]) | set(l for l, v in g["coulomb"]):
                            bad_env.append((name, L, "%s %s lost side-chain partners %r" % (c, g["label"], sorted(set(l for l, v in g0["sidechain"]) - set(l for l, v in g["sidechain"]))), text))
            # census model on this run
            if ctx.driver_ok:
                to = ",".join("%s|%d|%s" % (c.encode().hex(), n, i.encode().hex()) for c, n, i in o.mol.options.titrate_only) or "empty"
                from .c01 import PROTEIN_CLASSES
                for cname, conf in o.mol.conformations.items():
                    if cname == "AVR":
                        continue
                    heavy = [a for a in conf.atoms if a.element != "H"]
                    prot = {id(g.atom): g for g in conf.groups}
                    infos, want = [], []
                    for a in heavy:
                        infos.append("|".join([a.type.encode().hex(), a.name.encode().hex(), a.res_name.encode().hex(), a.chain_id.encode().hex(), str(a.res_num),
                                               a.icode.encode().hex(), (a.terminal or "").encode().hex(), str(a.count_bonded_elements("O")), "1" if a.cysteine_bridge else "0"]))
                        g = prot.get(id(a))
                        if g is None or type(g).__name__ not in PROTEIN_CLASSES:
                            want.append("-" if g is None else None)
                        else:
                            m = "None" if not g.model_pka_set else str(round(g.model_pka * 1000000))
                            want.append("%s|%s|%s|%d|%s|%d|%d" % (type(g).__name__, g.type.encode().hex(), g.residue_type.encode().hex(), round(g.charge * 1000000), m,
                                                                1 if g.titratable else 0, 1 if g.use_in_calculations() else 0))
                    creqs.append("groups census %s %s" % (to, ";".join(infos)))
                    creals.append((name, cname, want))
        # (2) all residues listed = no option
        o = observe.run(text, ["-i", to_arg(res)], want_text=True)
        ctx.case(key=(name, "all"))
        d = []
        if o.error != base.error:
            d.append("error %r" % (o.error,))
        else:
            for c in base.confs:
                d += observe.compare_groups(base.confs[c], o.confs.get(c, []), tol=0.0)[:2]
            if o.text != base.text:
                d.append(".pka text differs")
        if d:
            bad_all.append((name, d[:3], text))
        # (3) absent entries
        L = rnd.sample(res, max(1, len(res) // 2))
        absent = [("Q", 7, " "), (res[0][0], 9999, " "), (res[0][0], res[0][1], "Z")]
        o1 = observe.run(text, ["-i", to_arg(L)], want_text=True)
        o2 = observe.run(text, ["-i", to_arg(L + absent)], want_text=True)
        ctx.case(key=(name, "absent", tuple(L)))
        d = []
        if o1.error != o2.error:
            d.append("error %r vs %r" % (o1.error, o2.error))
        elif not o1.error:
            for c in o1.confs:
                d += observe.compare_groups(o1.confs[c], o2.confs.get(c, []), tol=0.0)[:2]
            if o1.text != o2.text:
                d.append(".pka text differs")
        if d:
            bad_absent.append((name, L, d[:3], text))
    for b in bad_exact[:2]:
        ctx.violate("titrate-only-exact:" + b[0], "%s -i %s: %s" % (b[0], to_arg(b[1])[:60], b[2]), dict(pdb=b[3], titrate_only=to_arg(b[1]), problem=b[2]))
    ctx.oblige("spec: titratable iff (titratable without option and listed); reported iff titratable or listed CYS; same groups", not bad_exact, str([(b[0], b[2]) for b in bad_exact[:2]]))
    for b in bad_env[:2]:
        ctx.violate("titrate-only-environment:" + b[0], "%s -i %s: %s" % (b[0], to_arg(b[1])[:60], b[2]), dict(pdb=b[3], titrate_only=to_arg(b[1]), problem=b[2]))
    ctx.oblige("spec: desolvation, buried fraction, backbone determinants and side-chain partners of listed groups unaffected by unlisting others", not bad_env, str([(b[0], b[2]) for b in bad_env[:2]]))
    for b in bad_all[:2]:
        ctx.violate("titrate-only-all:" + b[0], "%s: listing every residue differs from no option: %s" % (b[0], "; ".join(b[1])), dict(pdb=b[2], problems=b[1]))
    ctx.oblige("spec: listing every residue = no option (all records and the .pka text)", not bad_all, str([(b[0], b[1]) for b in bad_all[:2]]))
    for b in bad_absent[:2]:
        ctx.violate("titrate-only-absent:" + b[0], "%s: adding entries that name no residue changes the results: %s" % (b[0], "; ".join(b[2])), dict(pdb=b[3], titrate_only=to_arg(b[1])))
    ctx.oblige("spec: entries naming residues that do not exist have no effect", not bad_absent, str([(b[0], b[2]) for b in bad_absent[:2]]))
    if ctx.driver_ok:
        couts = common.driver_batch(creqs) if creqs else []
        cdis, natoms = [], 0
        for (name, cname, want), o in zip(creals, couts):
            for k, (w, g) in enumerate(zip(want, o.split(";"))):
                natoms += 1
                if w is not None and w != g:
                    cdis.append((name, cname, k, w, g))
                    break
        ctx.oblige("correspondence: Lean census model under titrate-only = real groups (%d atoms)" % natoms, not cdis, str(cdis[:1]))
    else:
        ctx.oblige("correspondence: census model = real groups", False, "driver not built")
    parse_res(ctx)


def parse_res(ctx):
    from propka.lib import parse_res_string
    bad = []
    for chain in ["A", "_", "b", "1"]:
        for num in [1, 10, -5, 9999, 0]:
            for ic in ["", "A", "z"]:
                s = "%s:%d%s" % (chain, num, ic)
                try:
                    r = parse_res_string(s)
                except ValueError as e:
                    r = "ValueError"
                ctx.case(("parse_res", s))
                if r != (chain, num, ic or " "):
                    bad.append((s, r))
    for b in bad[:2]:
        ctx.violate("parse_res_string:" + b[0], "parse_res_string(%r) = %r" % b, dict(call="propka.lib.parse_res_string", arg=b[0], got=str(b[1])))
    ctx.oblige("spec: parse_res_string round trip incl. negative numbers and insertion codes", not bad, str(bad[:2]))


def replay(ctx, rep):
    r = rep["replay"]
    if "pdb" in r:
        o = observe.run(r["pdb"], ["-i", r["titrate_only"]] if "titrate_only" in r else [])
        print("error:", o.error, "reported:", [g["label"] for g in o.reported()][:20])
    return 0
