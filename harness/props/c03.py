"""C03 - results are a pure function of content and options: fresh interpreters under different hash
seeds / allocation patterns / cwd / path-vs-stream, in-process histories, write-set of module state,
and the hidden-state model vs the real PROTONATOR."""
import json
import os
import subprocess
import sys
import tempfile
from concurrent.futures import ThreadPoolExecutor

from .. import common, observe, pdbgen

SPEC = dict(
    claim="Lean theorems on an explicit model of the process-level hidden state: for every history of runs, every value a run reads "
          "from the module-level PROTONATOR's valence table equals what it would read alone in a fresh process (invariant: base "
          "entries intact, every added element maps to 4; induction over look-ups and over the history), and the NCCG singleton's "
          "parameters are overwritten before they are read. The model is tied to the real PROTONATOR by driving both with element "
          "sequences. Everything else the property quantifies over is runtime behaviour and is checked on the real code: identical "
          "digests (every group record, determinant and the .pka text) across fresh interpreters with different PYTHONHASHSEED, "
          "allocation patterns, working directories, path vs stream input; in-process histories (repeats, interleaved inputs and "
          "options incl. -d, unknown elements) against solo runs; writes to module/class-level state confined to the modelled write set, observed in fresh interpreters (first run included) and in the checking process; two histories alternate the shipped parameter file with an edited one (-p: cut-offs, Nmin/Nmax) so that anything derived from one run's parameters and kept shows as a concrete failing history. The display mode itself is modelled (CoupleSearch.display inside Program.run: the coupled systems in the code's order, every combination of generate_combinations swapped in turn and never swapped back) and compared bit for bit with the real -d results wherever a check runs -d texts through the program tie; a family runs the command-line entry point on two inputs in ONE invocation (shared options object) and compares every written file with the file the input gets alone, with and without --titrate_only lists naming residues the earlier input lacks.",
    note="Partial: object addresses and hash seeds are runtime behaviour that the model can only exclude structurally (no set of "
         "groups is iterated after the fix of the coupled-system traversal); this is validated by the fresh-interpreter matrix, not "
         "proved. Tie-prone inputs (isolated ligands with several groups at exactly their model pKa) are generated on purpose.",
    technique="Lean 4 proof (invariant over the hidden-state machine, induction over histories) + fresh-interpreter differential runs",
    lean=["Propka.Props.C03"],
    rule="inputs: test files, library fragments, isolated hetero groups (ties), structures with an unknown element; each run in >= 4 "
         "fresh interpreters (hash seeds x garbage allocation x cwd x path/stream) and inside in-process histories of 3-6 calls with "
         "interleaved inputs/options; non-trivial = distinct (input, options) with at least one reported group",
    assumptions=["the date line of the .pka file is excluded", "CPython allocator perturbed by pre-allocating objects"],
)

WORKER = os.path.join(os.path.dirname(os.path.dirname(os.path.abspath(__file__))), "c03_worker.py")


def worker(spec, hashseed):
    with tempfile.NamedTemporaryFile("w", suffix=".json", delete=False) as f:
        json.dump(spec, f)
        path = f.name
    env = dict(os.environ, PYTHONHASHSEED=str(hashseed))
    try:
        p = subprocess.run([sys.executable, WORKER, path], capture_output=True, text=True, timeout=900, env=env)
    finally:
        os.unlink(path)
    if p.returncode != 0:
        raise common.Infra("worker failed: " + p.stderr[-400:])
    return json.loads(p.stdout.strip().split("\n")[-1])


def het_only(rnd, i):
    """isolated hetero groups: every group sits exactly at its model pKa -> ties inside coupled systems"""
    lib = pdbgen.library()
    hets = [it for k in sorted(lib) if k[1] == "het" for it in lib[k] if len(it[2]) > 5]
    names = sorted({it[1][3] for it in hets})
    pool = [it for it in hets if it[1][3] == names[i % len(names)]]
    it = rnd.choice(pool)
    return pdbgen.text(pdbgen.renumber_serials(it[2]))


def gen_inputs(ctx):
    rnd = ctx.rng
    out = []
    for name, t in pdbgen.test_files(["1HPX", "conf-alt-AB-mutant", "sample-issue-140"] if ctx.quick() else ["1HPX", "4DFR", "3SGB", "conf-alt-AB-mutant", "conf-model-mutant", "sample-issue-140"]):
        out.append((name, t))
    for i in range(3 if ctx.quick() else 12):
        out.append(("het%d" % i, het_only(rnd, i)))
    for i in range(6 if ctx.quick() else 24):
        lines, ids = pdbgen.multichain(rnd)
        if i % 3 == 0:      # an unknown element
            lines.append("HETATM 9999 XX   UNK X 999    %8.3f%8.3f%8.3f  1.00  0.00          XX\n" % (rnd.uniform(0, 10), rnd.uniform(0, 10), rnd.uniform(0, 10)))
        if i % 3 != 0:      # a ligand 30 A away from the protein: its groups sit exactly at their model pKa (ties)
            lib = pdbgen.library()
            hets = [it for k in sorted(lib) if k[1] == "het" for it in lib[k] if len(it[2]) > 5]
            names = sorted({it[1][3] for it in hets})
            hl = rnd.choice([it for it in hets if it[1][3] == names[i % len(names)]])[2]
            (x0, x1), _, _ = pdbgen.bbox(lines)
            (hx0, _), (hy0, _), (hz0, _) = pdbgen.bbox(hl)
            lines = lines + pdbgen.translate(hl, round(x1 + 30 - hx0, 3), round(-hy0, 3), round(-hz0, 3))
        out.append(("gen%d" % i, pdbgen.text(lines)))
    return out


OPTS = [[], ["-d"], ["--protonate-all"], ["-k"], ["-w", "0", "14", "2"], ["-r", "low-pH"]]


def run(ctx):
    rnd = ctx.rng
    inputs = gen_inputs(ctx)
    jobs = []     # (key, spec, hashseed)
    for name, text in inputs:
        for args in ([[], ["-d"]] if ctx.quick() else OPTS[:4]):
            key = (name, tuple(args))
            tmp = tempfile.gettempdir()
            variants = [dict(garbage=0, cwd=None, mode="stream", seed=0), dict(garbage=10007, cwd=tmp, mode="stream", seed=1),
                        dict(garbage=333, cwd=None, mode="path", seed=rnd.randint(2, 10 ** 6)), dict(garbage=70001, cwd="/", mode="stream", seed="random"),
                        dict(garbage=5, cwd=None, mode="path", seed=3, decoys=True)]
            if not ctx.quick():
                variants += [dict(garbage=rnd.randint(0, 50000), cwd=None, mode=rnd.choice(["path", "stream"]), seed=rnd.randint(0, 10 ** 6)) for _ in range(3)]
            for v in variants:
                jobs.append((key, dict(garbage=v["garbage"], cwd=v["cwd"], decoys=v.get("decoys", False), calls=[dict(pdb=text, args=args, mode=v["mode"])]), v["seed"], v))
    # in-process histories
    hist_jobs = []
    for h in range(4 if ctx.quick() else 20):
        calls = []
        for _ in range(rnd.randint(3, 6)):
            name, text = rnd.choice(inputs)
            calls.append(dict(pdb=text, args=rnd.choice(OPTS), mode="stream", name=name))
        if h % 2 == 0:      # the same input twice in a row
            calls.append(dict(calls[-1]))
        hist_jobs.append(calls)
    # histories that change the parameter file between runs: a value derived from one run's parameters (a cached cut-off, a
    # table built from them) must not reach the next run
    import re
    import propka as _pk
    cfg = open(os.path.join(os.path.dirname(os.path.abspath(_pk.__file__)), "propka.cfg")).read()
    alt = cfg
    for key_, val in (("desolv_cutoff", "16.0"), ("buried_cutoff", "13.0"), ("coulomb_cutoff1", "5.0"), ("coulomb_cutoff2", "8.0"),
                      ("Nmin", "250"), ("Nmax", "380")):
        alt = re.sub(r"^(%s\s+)\S+" % key_, r"\g<1>" + val, alt, flags=re.M)
    pdir = tempfile.mkdtemp(prefix="c03cfg")
    ctx.param_text = alt
    altp = os.path.join(pdir, "alt.cfg")
    open(altp, "w").write(alt)
    big = sorted(inputs, key=lambda nt: -len(nt[1]))[:2]
    for n, (name, text) in enumerate(big):
        dflt = dict(pdb=text, args=[], mode="stream", name=name)
        cust = dict(pdb=text, args=["-p", altp], mode="stream", name=name)
        hist_jobs.append([dflt, cust, dflt] if n == 0 else [cust, dflt, cust])
    with ThreadPoolExecutor(max_workers=14) as ex:
        res = list(ex.map(lambda j: worker(j[1], j[2]), jobs))
        hres = list(ex.map(lambda calls: worker(dict(garbage=0, cwd=None, calls=calls), 0), hist_jobs))
    by_key = {}
    texts = {}
    for (key, spec, seed, v), r in zip(jobs, res):
        by_key.setdefault(key, []).append((v, r[0]))
        texts[key] = spec["calls"][0]["pdb"]
    bad = []
    for key, runs in by_key.items():
        shas = {r["sha"] for _, r in runs}
        ng = sum(runs[0][1]["ngroups"].values())
        ctx.case(key=key, nontrivial=ng > 0)
        ctx.count("fresh-interpreter runs", len(runs))
        if len(shas) > 1:
            a = runs[0][1]
            b = next(r for _, r in runs if r["sha"] != a["sha"])
            diff = [(x, y) for x, y in zip(a["summary"], b["summary"]) if x != y][:3]
            tl = [(x, y) for x, y in zip((a["text"] or "").split("\n"), (b["text"] or "").split("\n")) if x != y][:2]
            bad.append((key, [v for v, r in runs if r["sha"] != a["sha"]][:2], diff, tl))
    for key, vs, diff, tl in bad[:3]:
        coupled = any("MTX" in str(x) or True for x in tl)
        sig = "D14:set-order-of-coupled-groups" if tl and not diff else "nondeterminism:" + key[0]
        ctx.violate(sig, "input %s %r: results differ between fresh interpreters (%r): %r %r" % (key[0], list(key[1]), vs[:1], diff, tl),
                    dict(pdb=texts[key], args=list(key[1]), variants=vs, summary_diff=diff, text_diff=tl))
    ctx.oblige("spec: identical results across fresh interpreters (hash seeds, allocation, cwd, path/stream) for %d (input, options)" % len(by_key),
               not bad, "%d differ, first %r" % (len(bad), [(b[0], b[2], b[3]) for b in bad[:1]]))
    # histories vs solo
    solo = {}
    hbad = []
    need = []
    for calls in hist_jobs:
        for c in calls:
            k = (c["name"], tuple(c["args"]))
            if k not in by_key and k not in solo:
                need.append((k, c))
                solo[k] = None
    with ThreadPoolExecutor(max_workers=14) as ex:
        sres = list(ex.map(lambda kc: worker(dict(garbage=0, cwd=None, calls=[kc[1]]), 0), need))
    for (k, c), r in zip(need, sres):
        solo[k] = r[0]["sha"]
    for calls, rs in zip(hist_jobs, hres):
        ctx.case(key=("history", tuple((c["name"], tuple(c["args"])) for c in calls)))
        ctx.count("history calls", len(calls))
        for i, (c, r) in enumerate(zip(calls, rs)):
            k = (c["name"], tuple(c["args"]))
            want = by_key[k][0][1]["sha"] if k in by_key else solo[k]
            if r["sha"] != want:
                hbad.append(([(x["name"], x["args"]) for x in calls[:i + 1]], k))
                break
    for hist, k in hbad[:2]:
        ctx.violate("history:" + k[0], "call %d of history %r gives results different from the same call alone" % (len(hist), hist),
                    dict(history=hist, inputs={n: t for n, t in inputs if n in {h[0] for h in hist}},
                         parameter_file_of_p_option=alt if any("-p" in a for _, a in hist) else None))
    import shutil
    shutil.rmtree(pdir, ignore_errors=True)
    ctx.oblige("spec: every call of %d in-process histories (two of them alternate the shipped and an edited parameter file) = the same call alone in a fresh interpreter" % len(hist_jobs), not hbad, str(hbad[:1]))
    # several inputs in ONE invocation of the command-line entry point (propka.run.main shares one options object between them):
    # the .pka file written for an input is the file written when that input is processed alone with the same options - also with
    # a --titrate_only list that names residues the earlier inputs lack
    mbad, mjobs = [], []
    for k in range(3 if ctx.quick() else 12):
        lines, ids = pdbgen.multichain(rnd, nchains=1, chains="A", twins=0.0)
        res = []
        for l in lines:
            if pdbgen.is_atom(l) and l[17:20] in ("ASP", "GLU", "LYS", "TYR", "HIS", "ARG") and (int(l[22:26]), l[17:20]) not in res:
                res.append((int(l[22:26]), l[17:20]))
        if len(res) < 2:
            continue
        gone = res[rnd.randrange(len(res))][0]
        part = [l for l in lines if not (pdbgen.is_atom(l) and int(l[22:26]) == gone)]
        full_t, part_t = pdbgen.text(lines), pdbgen.text(part)
        lst = ",".join("A:%d" % n for n, _ in res)
        for args in ([], ["-i", lst], ["-i", "A:%d" % gone]):
            mjobs.append((k, args, [part_t, full_t], [full_t]))
            mjobs.append((k, args, [full_t, part_t], [part_t]))
    if mjobs:
        with ThreadPoolExecutor(max_workers=14) as ex:
            together = list(ex.map(lambda j: worker(dict(garbage=0, cwd=None, calls=[dict(mode="main", files=j[2], args=j[1])]), 0), mjobs))
            alone = list(ex.map(lambda j: worker(dict(garbage=0, cwd=None, calls=[dict(mode="main", files=j[3], args=j[1])]), 0), mjobs))
        for j, t, a in zip(mjobs, together, alone):
            ctx.case(key=("one invocation", j[0], tuple(j[1]), len(j[2][0]) < len(j[2][1])))
            ctx.count("inputs processed together with another one in one invocation")
            if t[0].get("error") != a[0].get("error") or t[0]["files"][-1] != a[0]["files"][-1] or t[0]["files"][-1] is None:
                mbad.append((j[1], t[0].get("error"), a[0].get("error"), j[2]))
    for b in mbad[:2]:
        ctx.violate("one-invocation:" + " ".join(b[0])[:30], "an input processed after another one in one invocation (options %r) gives a .pka file different from the one it gives alone (errors %r / %r)" % (b[0], b[1], b[2]),
                    dict(args=b[0], files=b[3]))
    ctx.oblige("spec: an input processed after other inputs in one invocation = the same input processed alone (%d invocations, with and without --titrate_only)" % len(mjobs),
               not mbad, str([(b[0], b[1], b[2]) for b in mbad[:2]]))
    write_set(ctx, inputs)
    hidden_corr(ctx)


def snapshot():
    import propka
    import importlib
    import pkgutil
    snap = {}
    for m in pkgutil.iter_modules(propka.__path__):
        if m.name.startswith("_"):
            continue
        mod = importlib.import_module("propka." + m.name)
        for k, v in vars(mod).items():
            if k.startswith("__"):
                continue
            snap["%s.%s" % (m.name, k)] = repr_state(v)
            if isinstance(v, type):
                for ck, cv in vars(v).items():
                    if not ck.startswith("__") and not callable(cv):
                        snap["%s.%s.%s" % (m.name, k, ck)] = repr_state(cv)
    return snap


def repr_state(v):
    if isinstance(v, (int, float, str, bool, tuple, type(None))):
        return repr(v)
    if isinstance(v, (dict, list, set)):
        try:
            return repr(sorted(v.items()) if isinstance(v, dict) else v)[:5000]
        except Exception:  # noqa: BLE001
            return "obj"
    d = getattr(v, "__dict__", None)
    if isinstance(d, dict) and type(v).__module__.startswith("propka"):
        return repr(sorted((k, repr_state(x)) for k, x in d.items() if not callable(x)))[:5000]
    return "obj:" + type(v).__name__


ALLOWED_WRITES = ("group.PROTONATOR", "coupled_groups.NCCG", "lib._LOGGER")


def write_set(ctx, inputs):
    """observed in fresh interpreters (two histories: the inputs in order and reversed) and in this process"""
    bad = []

    def judge(name, keys):
        for k in keys:
            leaf = k.split(".")[1]
            if leaf not in ("PROTONATOR", "NCCG") and "_LOGGER" not in k:
                bad.append((name, k))
    picked = inputs[:6]
    for tag, seq in (("fresh", picked), ("fresh-reversed", picked[::-1][:3])):
        res = worker(dict(writeset=True, calls=[dict(pdb=t, args=[]) for _, t in seq]), 0)
        for (name, _), keys in zip(seq, res):
            judge(tag + ":" + name, keys)
            ctx.case(key=("writeset", tag, name))
    for name, text in picked[:2]:
        before = snapshot()
        observe.run(text, [], want_text=False)
        after = snapshot()
        judge(name, [k for k in after if before.get(k) != after[k]])
        ctx.case(key=("writeset", name))
    if bad:
        ctx.violate("write-set:" + bad[0][1], "a run writes module-level state outside the modelled write set: %r" % bad[:3], dict(writes=bad[:10]), failing_input=False)
    ctx.oblige("write-set: a run (also the first of a fresh interpreter) writes no module/class-level state except PROTONATOR's table and NCCG.parameters", not bad, str(bad[:3]))


def hidden_corr(ctx):
    """drive the real module-level PROTONATOR and the Lean model with the same element sequences"""
    if not ctx.driver_ok:
        ctx.oblige("correspondence: hidden-state model = real PROTONATOR", False, "driver not built")
        return
    import propka.group
    import propka.protonate
    from propka.atom import Atom
    rnd = ctx.rng
    elems = ["C", "N", "O", "S", "Xx", "Q", "Zn", "Uue", "D", "Xx"]
    reqs, reals = [], []
    for _ in range(20 if ctx.quick() else 300):
        pr = propka.protonate.Protonate()
        progs = [[rnd.choice(elems) for _ in range(rnd.randint(0, 6))] for _ in range(rnd.randint(1, 4))]
        vals = []
        for p in progs:
            row = []
            for e in p:
                a = Atom()
                a.element = e
                pr.set_number_of_protons_to_add(a)
                row.append(8 - a.number_of_protons_to_add)     # no bonds, no pi electrons, no charge: 8 - valence
            vals.append(",".join(map(str, row)))
        reqs.append("hidden history " + ";".join(",".join(e.encode().hex() for e in p) or "-" for p in progs))
        reals.append(";".join(vals))
        ctx.case(key=("hidden", tuple(map(tuple, progs))))
    outs = common.driver_batch(reqs)
    dis = [(q, r, m) for q, r, m in zip(reqs, reals, outs) if r != m]
    ctx.oblige("correspondence: valence look-ups of a real Protonate over histories = hidden-state model (%d histories)" % len(reqs), not dis, str(dis[:1]))


def replay(ctx, rep):
    r = rep["replay"]
    if "pdb" in r:
        shas = set()
        for seed, g in ((0, 0), (1, 10007), (2, 333), (3, 70001), (4, 5), (5, 999)):
            out = worker(dict(garbage=g, cwd=None, calls=[dict(pdb=r["pdb"], args=r.get("args", []), mode="stream")]), seed)
            shas.add(out[0]["sha"])
        print("distinct results over 6 fresh interpreters:", len(shas))
        return 0 if len(shas) == 1 else 1
    if "history" in r and r.get("inputs"):
        d = tempfile.mkdtemp(prefix="c03rep")
        try:
            pf = os.path.join(d, "alt.cfg")
            open(pf, "w").write(r.get("parameter_file_of_p_option") or "")
            calls = [dict(pdb=r["inputs"][n], args=[pf if i and a[i - 1] == "-p" else x for i, x in enumerate(a)], mode="stream") for n, a in r["history"]]
            inhist = worker(dict(garbage=0, cwd=None, calls=calls), 0)[-1]["sha"]
            alone = worker(dict(garbage=0, cwd=None, calls=calls[-1:]), 0)[0]["sha"]
        finally:
            import shutil
            shutil.rmtree(d, ignore_errors=True)
        print("last call of the history = the same call alone:", inhist == alone)
        return 0 if inhist == alone else 1
    print(rep)
    return 0
