"""C04 - predictions do not depend on where the structure sits in space."""
import math

from .. import common, observe, pdbgen

SPEC = dict(
    claim="Lean theorems on the exact 0.001 A grid: the 24 axis-permuting proper rotations are distinct, orthogonal with determinant +1 "
          "and closed under composition (decided); an orthogonal integer matrix preserves dot products, so a grid translation followed "
          "by any of the 24 rotations preserves every squared distance; the cross product is equivariant (needs det +1); group centres "
          "move with the structure; hence the bond criterion and - by the theorem of C11 - the perceived bonds are invariant although "
          "cell assignment and bond-list order change; the desolvation and buried-count kernels read squared distances only. "
          "Metamorphic runs of the real pipeline: structure vs moved structure (translations within the PDB field x rotations) - bonds, "
          "protein and ion groups, desolvation terms and buried fractions identical to 1e-9; with the program's own hydrogens supplied "
          "(-k) every pKa and determinant identical to 1e-9; with constructed hydrogens within the effect of coordinate rounding. "
          "The whole scoring phase is modelled as well (Model/Scoring.lean: calculate_pka of one conformation with everything it calls - desolvation, backbone and ion determinants, backbone reorganisation, the pair loop with angle factors, exception rules and both families of pair rules, the iterative scheme, totals, coupling penalties and the removal of determinants towards penalised groups; parameters regenerated from /repo and read back from the compiled driver); its Float instance is compared with the real calculate_pka on every distinct conformation this check runs - counts, partners and order exactly, numbers to 1e-9 (they are bit-identical on the unchanged tree). score reads coordinates only through the environment envOf (squared distances atom-atom / centre-atom / centre-centre and the angle factors): envOf_motion_invariant / score_motion_invariant show that a map of space preserving inner products of difference vectors leaves that environment, hence every number scoring produces, unchanged (hydrogens where they are: supplied hydrogens, or constructed ones before rounding); rigid_isometric shows that every orthogonal matrix followed by a translation - not only the 24 grid rotations - is such a map. A directed family lays the pairs of groups with the most distant centres among all determinant partners along the x axis and moves the structure in 0.15 A steps over 6.3 A, so that a cell boundary of any absolute grid passes between them. "
          "centreOf_affine: the centre of a group (set_center: mean of a non-empty atom list, Model/Setup.lean) commutes with every affine map, so the centres envOf reads are the moved centres. pipeline_bonds_motion_invariant (Props/C04Pipeline.lean): on the bonding phase the program model executes (Pipe.bondAll, tied to the real bond lists on every recorded conformation) two atom tables that correspond under a grid rotation and a translation get the same bonds - through the refinement bondAll_refines and C11's pairwise theorem, exact arithmetic, regenerated constants.",
    note="Partial: 'no more than the effect of rounding constructed hydrogens' is a quantitative Lipschitz statement that is not proved; it "
         "is measured (0.02 pKa units allowed). Selections from a neighbour list that is not a singleton (element [0] of the bonded "
         "carbons of a terminal oxygen) depend on bond-list order, i.e. on the frame: known finding D10, not repaired because the fix "
         "changes a frozen reference.",
    technique="Lean 4 proof (integer matrix algebra, decide over the 24 matrices, corollary of the cell-list theorem) + metamorphic runs",
    lean=["Propka.Props.C04", "Propka.Props.C04Pipeline"],
    rule="test files and library structures (amino-acid chains, with ions/ligands for the heavy-atom clauses) x random grid translations "
         "within the coordinate field x rotations from the 24; non-trivial = a non-identity motion of a structure with ionizable groups",
    assumptions=["coordinates stay inside the PDB field after the motion"],
)


def heavy_obs(o):
    """bonds among heavy atoms and the heavy-atom part of every group record, keyed by atom identity"""
    out = {}
    for c, conf in o.mol.conformations.items():
        if c == "AVR":
            continue
        bonds = set()
        for a in conf.atoms:
            if a.element == 'H':
                continue
            for b in a.bonded_atoms:
                if b.element != 'H':
                    bonds.add(tuple(sorted([observe.atom_key(a), observe.atom_key(b)])))
        groups = {}
        for g in conf.groups:
            if g.atom.type == 'atom' or g.type == 'ION':
                groups[(observe.atom_key(g.atom), g.type)] = (g.energy_volume, g.num_volume, g.buried, g.energy_local)
        out[c] = (bonds, groups)
    return out


def full_obs(o):
    out = {}
    for c, conf in o.mol.conformations.items():
        if c == "AVR":
            continue
        for g in conf.groups:
            out[(c, observe.atom_key(g.atom), g.type)] = (g.pka_value, sorted((d.label, d.value) for t in ('sidechain', 'backbone', 'coulomb') for d in g.determinants[t]))
    return out


def dump_with_h(o, original=None):
    """PDB text of the only conformation including the hydrogens the program built; residues in the order of the original
    text when that is given (the program sorts its atoms by chain code, which need not be the file order - and the first
    residue of a file is always a chain start)"""
    from propka.atom import PDB_LINE_FMT1
    from propka.lib import make_tidy_atom_label
    conf = o.mol.conformations[o.mol.conformation_names[0]]
    lines = []
    rkey = lambda a: (a.chain_id, a.res_num, a.icode)
    nplus = {rkey(a) for a in conf.atoms if a.terminal == 'N+'}
    prev = None
    atoms = list(conf.atoms)
    if original is not None:
        order = {}
        for l in pdbgen.lines_of(original):
            if pdbgen.is_atom(l):
                order.setdefault((l[21] if l[21] != ' ' else '_', int(l[22:26]), l[26]), len(order))
        atoms.sort(key=lambda a: order.get(rkey(a), len(order)))     # stable: the order inside a residue stays the program's
    for i, a in enumerate(atoms):
        # the parser starts a new N-terminus only after TER / a terminal oxygen, not at a chain change: write TER exactly
        # in front of the residues whose nitrogen the original run tagged N+
        if prev is not None and rkey(a) != prev and rkey(a) in nplus:
            lines.append("TER   \n")
        prev = rkey(a)
        lab = make_tidy_atom_label(a.name, a.element)
        l = "%-6s%5d %4s %3s%2s%4d%1s   %8.3f%8.3f%8.3f%6s%6s\n" % (a.type.upper() if a.type != 'atom' else 'ATOM', i + 1, lab, a.res_name, a.chain_id if a.chain_id != '_' else ' ',
                                                                   a.res_num, a.icode or ' ', a.x, a.y, a.z, "1.00", "0.00")
        lines.append(l)
    return lines


def random_motion(rnd, lines, straddle=False):
    """a grid rotation followed by a translation inside the coordinate field; with `straddle` the structure is placed across
    a value where the width of the coordinate field changes (-100.000, 1000.000, ...) on one axis"""
    rots = pdbgen.rotations24()
    m = rots[rnd.randrange(24)]
    rl = pdbgen.rotate(lines, m)
    (x0, x1), (y0, y1), (z0, z1) = pdbgen.bbox(rl)
    t = []
    for lo, hi in ((x0, x1), (y0, y1), (z0, z1)):
        a, b = -999.0 - lo, 9999.0 - hi
        t.append(round(rnd.choice([rnd.uniform(a, b), rnd.uniform(-50, 50), round(rnd.uniform(-20, 20)) * 2.51, 0.0]), 3))
        t[-1] = max(min(t[-1], b), a)
    if straddle:
        ax = rnd.randrange(3)
        lo, hi = ((x0, x1), (y0, y1), (z0, z1))[ax]
        # a point of the structure on that axis lands on the boundary, so that there are atoms on either side of it
        t[ax] = round(rnd.choice([-100.0, 1000.0, 1000.0 * rnd.randint(2, 9)]) - rnd.uniform(lo, hi), 3)
        t[ax] = max(min(t[ax], 9999.0 - hi), -999.0 - lo)
    return pdbgen.translate(rl, *[round(v, 3) for v in t]), (m, t)


def cmp_heavy(a, b, tol=1e-9):
    d = []
    for c in a:
        if c not in b:
            return ["conformation %s missing" % c]
        if a[c][0] != b[c][0]:
            x = sorted(a[c][0] ^ b[c][0])[:2]
            d.append("bonds differ: %r" % (x,))
        if set(a[c][1]) != set(b[c][1]):
            d.append("groups differ: %r" % (sorted(set(a[c][1]) ^ set(b[c][1]))[:2],))
            continue
        for k, v in a[c][1].items():
            w = b[c][1][k]
            for name, p, q in zip(("Emass", "Nmass", "buried", "Elocl"), v, w):
                if abs(p - q) > tol:
                    d.append("%s %s %s %s %r vs %r" % (k[0][3], k[0][1], k[0][4], name, p, q))
    return d


def cmp_full(a, b, tol):
    d = []
    if set(a) != set(b):
        return ["groups differ: %r" % (sorted(set(a) ^ set(b))[:2],)]
    for k, (pka, dets) in a.items():
        pk2, dets2 = b[k]
        if abs(pka - pk2) > tol:
            d.append("%s %s %d pKa %r vs %r" % (k[1][3], k[1][4], k[1][1], pka, pk2))
        if len(dets) != len(dets2) or any(x[0] != y[0] or abs(x[1] - y[1]) > tol for x, y in zip(dets, dets2)):
            d.append("%s %d determinants %r vs %r" % (k[1][3], k[1][1], [(l, round(v, 3)) for l, v in dets][:3], [(l, round(v, 3)) for l, v in dets2][:3]))
    return d


def is_d10(diffs):
    """only the desolvation of C-terminal carboxylates (groups on OXT / O'') differs"""
    return bool(diffs) and all(x.split()[2] in ("OXT", "O''") for x in diffs if len(x.split()) > 2 and not x.startswith(("bonds", "groups")))


PLANAR_NEIGHBOUR = {("ASN", "ND2"), ("GLN", "NE2"), ("ARG", "NH1"), ("ARG", "NH2")}


def rotamer_is_arbitrary(parent):
    """the hydrogens of `parent` are built around an arbitrary perpendicular (Vector.orthogonal()): it has a single heavy
    neighbour that defines no plane.  For protein atoms this is decided from the chemistry (the amide / guanidinium nitrogens
    have a planar neighbour), not from the steric numbers the program computed; for hetero atoms from the program's typing."""
    heavy = parent.get_bonded_heavy_atoms()
    if len(heavy) >= 2:
        return False
    if len(heavy) == 1 and len(heavy[0].bonded_atoms) > 1:
        if parent.type == 'atom':
            if (parent.res_name, parent.name) in PLANAR_NEIGHBOUR:
                return False
        elif heavy[0].steric_number == 3:
            return False
    return True


def ambiguous_cterm(o):
    """a terminal oxygen bonded to more than one carbon: CtermGroup.setup_atoms takes `the_carbons[0]`, whichever the bond list
    happens to put first - the precondition of finding D10"""
    out = set()
    for c, conf in o.mol.conformations.items():
        for a in conf.atoms:
            if a.terminal == 'C-' and len(a.get_bonded_elements('C')) > 1:
                out.add((a.res_num, a.chain_id))
    return out


def d10_explains(diffs, o):
    """every difference involves a C-terminus whose defining carbon is ambiguous (its own records, or determinants towards it)"""
    amb = ambiguous_cterm(o)
    if not amb or not diffs:
        return False
    import re
    for x in diffs:
        if not any(re.search(r"(^|[^0-9])%d([^0-9]|$)" % num, x) for num, ch in amb):
            return False
    return True


def frame_dependent_hydrogens(o):
    """hydrogens whose construction uses Vector.orthogonal(): the parent has a single neighbour that defines no plane"""
    n = 0
    for c, conf in o.mol.conformations.items():
        if c == "AVR":
            continue
        for a in conf.atoms:
            if a.element != 'H' and a.count_bonded_elements('H') > 0:
                if rotamer_is_arbitrary(a):
                    n += 1
    return n


def corpus_first(ctx):
    import json
    for f in sorted(common.CORPUS.glob("C04-*.json")):
        rep = json.loads(f.read_text())
        r = rep["replay"]
        a, b = observe.run(r["original"], want_text=False), observe.run(r["pdb"], want_text=False)
        ctx.case(key=("corpus", f.name))
        if not (a.error or b.error):
            d = cmp_heavy(heavy_obs(a), heavy_obs(b))
            if d:
                ctx.violate(rep["signature"], "corpus witness %s: %s" % (f.name, "; ".join(d[:2])), r)


def align_x(lines, u):
    """the structure turned so that the unit vector `u` points along +x (Rodrigues rotation about u x ex), coordinates
    rounded back to the 0.001 grid: a new, slightly different structure, which is then only translated exactly"""
    ux, uy, uz = u
    c = ux                                   # cos of the angle between u and ex
    ax = (0.0, uz, -uy)                      # u x ex
    s = math.sqrt(ax[1] ** 2 + ax[2] ** 2)
    if s < 1e-9:
        m = [[1, 0, 0], [0, 1, 0], [0, 0, 1]] if c > 0 else [[-1, 0, 0], [0, -1, 0], [0, 0, 1]]
    else:
        k = (0.0, ax[1] / s, ax[2] / s)
        K = [[0, -k[2], k[1]], [k[2], 0, -k[0]], [-k[1], k[0], 0]]
        K2 = [[sum(K[i][l] * K[l][j] for l in range(3)) for j in range(3)] for i in range(3)]
        m = [[(1 if i == j else 0) + s * K[i][j] + (1 - c) * K2[i][j] for j in range(3)] for i in range(3)]
    out = []
    for l in lines:
        if pdbgen.is_atom(l):
            v = pdbgen.coords(l)
            w = [round(sum(m[i][j] * v[j] for j in range(3)), 3) for i in range(3)]
            l = pdbgen.set_coords(l, *w)
        out.append(l)
    return out


def boundary_scan(ctx, fbad, hbad):
    """Directed family for anything that sorts atoms or groups into cells of an absolute grid: the pairs of groups whose
    centres are furthest apart among all pairs that share a determinant are laid along the x axis, and the structure is then
    moved along x in small exact steps over several Angstrom, so that every cell boundary of every plausible cell size passes
    between the two centres.  Every pose is compared with the first (heavy-atom observables 1e-9, pKa and determinants within
    hydrogen rounding); all poses also go through the scoring correspondence."""
    rnd = ctx.rng
    names = ["4DFR", "1HPX"] if ctx.quick() else ["4DFR", "1HPX", "3SGB", "1FTJ-Chain-A"]
    step = 0.15 if ctx.quick() else 0.1
    span = 6.3 if ctx.quick() else 8.0
    for name, text in pdbgen.test_files(names):
        lines = pdbgen.lines_of(text)
        if name == "4DFR":
            # one chain, first alternate only: a structure of its own, a quarter of the cost
            lines = [l for l in lines if not pdbgen.is_atom(l) or (l[21] == "B" and l[16] in " A")]
            lines = [pdbgen.setcols(l, 16, 17, " ") if pdbgen.is_atom(l) else l for l in lines]
            name = "4DFR-chain-B"
        lines = [l for l in lines if l.startswith("ATOM") or not pdbgen.is_atom(l)]     # amino acids: all hydrogens are frame-independent
        base = observe.run(pdbgen.text(lines), [], want_text=False)
        if base.error or frame_dependent_hydrogens(base) > 0:
            ctx.count("boundary scan skipped (error or frame-dependent hydrogens): " + name)
            continue
        conf = base.mol.conformations[base.mol.conformation_names[0]]
        cand = {}
        for g in conf.groups:
            for kind in ('backbone', 'sidechain', 'coulomb'):
                for d in g.determinants[kind]:
                    h = d.group.group if type(d.group).__name__ == 'Iterative' else d.group
                    v = (h.x - g.x, h.y - g.y, h.z - g.z)
                    n = math.sqrt(sum(c * c for c in v))
                    if n > 1.0:
                        cand.setdefault(kind, []).append((n, g.label, h.label, tuple(c / n for c in v)))
        picks = []
        for kind, k in (('backbone', 2), ('sidechain', 1), ('coulomb', 1)) if ctx.quick() else (('backbone', 4), ('sidechain', 3), ('coulomb', 3)):
            picks += [(kind,) + c for c in sorted(cand.get(kind, []), reverse=True)[:k]]
        for kind, dist, la, lb, u in picks:
            al = align_x(lines, u)
            ref = observe.run(pdbgen.text(al), [], want_text=False)
            if ref.error or frame_dependent_hydrogens(ref) > 0:
                continue
            rh, rf = heavy_obs(ref), full_obs(ref)
            nsteps = int(span / step)
            for i in range(1, nsteps + 1):
                tx = round(i * step, 3)
                ml = pdbgen.translate(al, tx, 0.0, 0.0)
                o = observe.run(pdbgen.text(ml), [], want_text=False)
                ctx.case(key=("scan", name, la, lb, tx))
                ctx.count("boundary-scan poses (%s pairs)" % kind)
                if o.error:
                    hbad.append((name, ["error %r" % (o.error,)], pdbgen.text(ml), pdbgen.text(al)))
                    break
                d = cmp_heavy(rh, heavy_obs(o))
                if d and not is_d10(d):
                    hbad.append((name + " %s-%s along x" % (la, lb), d[:3], pdbgen.text(ml), pdbgen.text(al)))
                    break
                d = cmp_full(rf, full_obs(o), tol=0.02)
                if d and not d10_explains(d, ref):
                    fbad.append((name + " %s-%s (%.2f A, %s) along x, moved by %.3f" % (la.strip(), lb.strip(), dist, kind, tx), d[:3], pdbgen.text(ml), pdbgen.text(al)))
                    break


def _run(ctx):
    rnd = ctx.rng
    corpus_first(ctx)
    inputs = [(n, t, True) for n, t in pdbgen.test_files(["1HPX", "3SGB-subset", "sample-issue-140"] if ctx.quick() else ["1HPX", "3SGB", "4DFR", "1FTJ-Chain-A", "sample-issue-140"])]
    for i in range(8 if ctx.quick() else 60):
        lines, ids = pdbgen.multichain(rnd, nchains=rnd.randint(1, 2), separation=rnd.choice([15.0, 40.0]), chains="ABCDEFG")
        lines = [l for l in lines if not l.startswith("TER")] if i % 3 == 0 else lines
        if i % 4 == 1:
            # incomplete residues: groups whose centre cannot be built from their own atoms must still move with the structure
            lines = pdbgen.truncate_sidechains(rnd, lines, rnd.randint(1, 2), types=rnd.choice([None, ("ASP", "GLU")]))
        inputs.append(("gen%d" % i, pdbgen.text(lines), False))
    # a peptide plane parallel to a coordinate plane: a nitrogen and both its neighbours share one coordinate exactly
    for i in range(2 if ctx.quick() else 10):
        lines, ids = pdbgen.multichain(rnd, nchains=1, chains="ABC")
        al = pdbgen.align_peptide_plane(rnd, lines)
        if al is not None:
            inputs.append(("plane-aligned%d" % i, pdbgen.text(al), False))
            ctx.count("inputs with a peptide plane parallel to a coordinate plane")
    hbad, fbad, kbad = [], [], []
    hbad_known = 0
    for name, text, hetero in inputs:
        base = observe.run(text, [], want_text=False)
        if base.error:
            continue
        lines = pdbgen.lines_of(text)
        bh, bf = heavy_obs(base), full_obs(base)
        nmot = 2 if ctx.quick() else 6
        for k in range(nmot + 3):
            if k < nmot:
                ml, (m, t) = random_motion(rnd, lines, straddle=(k == 0))
            else:
                # a pure translation that puts one of the hydrogens the program builds exactly on a coordinate plane (x, y or z = 0.000)
                built = [a for a in base.mol.conformations[base.mol.conformation_names[0]].atoms if a.element == 'H']
                if not built:
                    continue
                h, ax = rnd.choice(built), rnd.randrange(3)
                t = [0.0, 0.0, 0.0]
                t[ax] = -round((h.x, h.y, h.z)[ax], 3)
                m = pdbgen.rotations24()[0]
                ml = pdbgen.translate(lines, *t)
                ctx.count("translations putting a built hydrogen on a coordinate plane")
            o = observe.run(pdbgen.text(ml), [], want_text=False)
            ctx.case(key=(name, k, tuple(map(tuple, m)), tuple(t)), nontrivial=len(bf) > 0)
            ctx.count("motions")
            if o.error:
                hbad.append((name, ["error %r" % (o.error,)], pdbgen.text(ml), text))
                continue
            if k >= nmot:
                # under a pure grid translation every hydrogen the program builds moves with the structure (0.03 A: roundings of
                # chained constructions add up to about 0.005 A, and where overlapping fragments give a planar centre a fourth
                # neighbour the plane is taken from whichever two the bond list puts first, a shift of about 0.01 A)
                # (compared as sets per residue: which of two equivalent hydrogens is built first, and so their names, follows
                # the order of the bond lists)
                def hp(ob):
                    out = {}
                    for a in ob.mol.conformations[ob.mol.conformation_names[0]].atoms:
                        # amino-acid residues only: C04 excludes hetero groups from the claims about constructed hydrogens (which
                        # of two equivalent ligand oxygens is protonated follows the order of the bond lists)
                        if a.element == 'H' and a.type == 'atom':
                            out.setdefault(observe.atom_key(a)[:4], []).append((a.x, a.y, a.z))
                    return out
                ha, hb = hp(base), hp(o)
                d = []
                if {k: len(v) for k, v in ha.items()} != {k: len(v) for k, v in hb.items()}:
                    d.append("different sets of built hydrogens after a translation by %r" % (t,))
                else:
                    for key, pas in ha.items():
                        for pa in pas:
                            if not any(all(abs(pb[i] - t[i] - pa[i]) <= 0.03 for i in range(3)) for pb in hb[key]):
                                d.append("hydrogen of %r at %r has no counterpart after a translation by %r: %r" % (key, pa, t, hb[key][:4]))
                if d:
                    fbad.append((name, d[:3], pdbgen.text(ml), text))
                    continue
            d = cmp_heavy(bh, heavy_obs(o))
            if d:
                if is_d10(d) and "D10:cterm-carbon-choice-depends-on-bond-order" in ctx.known:
                    hbad_known += 1
                    ctx.violate("D10:cterm-carbon-choice-depends-on-bond-order", "%s moved: %s" % (name, "; ".join(d[:2])), dict(pdb=pdbgen.text(ml), original=text, diffs=d[:4]))
                else:
                    hbad.append((name, d[:3], pdbgen.text(ml), text))
                continue
            if frame_dependent_hydrogens(base) > 0:
                ctx.count("pKa comparison skipped: frame-dependent hydrogen constructions (chain breaks / hetero groups)")
            elif not hetero or all(l.startswith("ATOM") or not pdbgen.is_atom(l) for l in lines):
                d = cmp_full(bf, full_obs(o), tol=0.02)
                if d and d10_explains(d, base) and "D10:cterm-carbon-choice-depends-on-bond-order" in ctx.known:
                    hbad_known += 1
                    ctx.violate("D10:cterm-carbon-choice-depends-on-bond-order", "%s moved (constructed hydrogens): %s" % (name, "; ".join(d[:2])), dict(pdb=pdbgen.text(ml), original=text, diffs=d[:4]))
                elif d:
                    fbad.append((name, d[:3], pdbgen.text(ml), text))
        # keep-protons: supply the program's own hydrogens, then move
        if not hetero and len(base.mol.conformation_names) == 1:
            hl = dump_with_h(base, text)
            b2 = observe.run(pdbgen.text(hl), ["-k"], want_text=False)
            if not b2.error:
                ml, (m, t) = random_motion(rnd, hl, straddle=rnd.random() < 0.5)
                o2 = observe.run(pdbgen.text(ml), ["-k"], want_text=False)
                ctx.case(key=(name, "keep", tuple(map(tuple, m)), tuple(t)))
                ctx.count("keep-protons motions")
                d = ["error %r" % (o2.error,)] if o2.error else cmp_full(full_obs(b2), full_obs(o2), tol=1e-9)
                if d and d10_explains(d, b2) and "D10:cterm-carbon-choice-depends-on-bond-order" in ctx.known:
                    hbad_known += 1
                    ctx.violate("D10:cterm-carbon-choice-depends-on-bond-order", "%s with supplied hydrogens, moved: %s" % (name, "; ".join(d[:2])), dict(pdb=pdbgen.text(ml), original=pdbgen.text(hl), diffs=d[:4]))
                elif d:
                    kbad.append((name, d[:3], pdbgen.text(ml), pdbgen.text(hl)))
    boundary_scan(ctx, fbad, hbad)
    ctx.coverage["known_finding_instances"] = hbad_known
    for b in hbad[:2]:
        ctx.violate("D10:cterm-carbon-choice-depends-on-bond-order" if is_d10(b[1]) else "motion-heavy:" + b[0],
                    "%s moved: %s" % (b[0], "; ".join(b[1])), dict(pdb=b[2], original=b[3], diffs=b[1]))
    ctx.oblige("spec: bonds, protein/ion groups, desolvation terms, buried fractions unchanged by rigid motions (1e-9; apart from listed known findings)", not hbad, str([(b[0], b[1][:1]) for b in hbad[:2]]))
    for b in fbad[:2]:
        ctx.violate("motion-pka:" + b[0], "%s moved (constructed hydrogens): %s" % (b[0], "; ".join(b[1])), dict(pdb=b[2], original=b[3], diffs=b[1]))
    ctx.oblige("spec: pKa values and determinants of amino-acid structures change by no more than hydrogen-coordinate rounding (0.02)", not fbad, str([(b[0], b[1][:1]) for b in fbad[:2]]))
    for b in kbad[:2]:
        ctx.violate("motion-keep-protons:" + b[0], "%s with supplied hydrogens, moved: %s" % (b[0], "; ".join(b[1])), dict(pdb=b[2], original=b[3], diffs=b[1]))
    ctx.oblige("spec: with hydrogens supplied (-k) every pKa and determinant is unchanged by rigid motions (1e-9)", not kbad, str([(b[0], b[1][:1]) for b in kbad[:2]]))
    # the rotation family used by the generator is the one of the theorem
    mats = sorted(tuple(map(tuple, m)) for m in pdbgen.rotations24())
    ctx.oblige("tie: the harness's 24 rotations are 24 distinct signed permutation matrices of determinant +1", len(set(mats)) == 24, "")


def run(ctx):
    from .. import scoring_common
    with scoring_common.tie(ctx, "C04's structures and their rigid motions"):
        _run(ctx)


def replay(ctx, rep):
    r = rep["replay"]
    if "original" in r:
        a, b = observe.run(r["original"]), observe.run(r["pdb"])
        d = cmp_heavy(heavy_obs(a), heavy_obs(b)) if not (a.error or b.error) else [str(a.error), str(b.error)]
        print(d[:5])
        return 1 if d else 0
    return 0
