"""C10 - proton linkage, optimum/ranges, the requested grid and window."""
import math
import re
from fractions import Fraction

from .. import common, observe, pdbgen
from ..profiles_common import tgroups, enc_groups, spec_charges, exact_steps, GRIDS, WINDOWS

SPEC = dict(
    claim="Over the reals (Mathlib): for a titratable group of formal charge +-1 the reported folding free energy is a pH-independent "
          "reference term plus s*(log10(1+10^(pH-pK)) - log10(1+10^(pH-pK_model))), and HasDerivAt gives d(dG)/d(pH) = -s*(Q_folded - "
          "Q_unfolded) with the reported charge curves, for each group and for the protein (induction over the group list); s = -1.36 and "
          "'every creatable titratable kind has charge +-1' are obligations decided on the regenerated constants. The reported optimum "
          "is the minimum of the profile and a profile point, the reported ranges are exactly the extreme grid pH values passing their "
          "filters. In exact arithmetic the grid has floor((max-min)/step + 1e-9)+1 points min+i*step, so both end points are included "
          "whenever (max-min)/step is whole; a profile pH is printed iff it lies in the window and on the lattice window_min + k*delta. "
          "Float instances of all definitions are compared with the real code; the linkage is also checked by numerical "
          "differentiation of the real calculate_folding_energy, and the printed rows are parsed from the .pka text. The folding-energy and charge sections of the .pka file are part of the output model on top of Program.run (Model/Output.lean: profile on the grid of the options, window lattice in exact thousandths, optimum, ranges, pI); the program-level correspondence of this check compares them character by character with the real sections, under -g / -w.",
    note="Theorems over R/Q/Int; rounding is not modelled, so grids are also compared with the exact-arithmetic count (this is what "
         "found the dropped end point). Folding rows are compared on pH values rounded to 0.001 as the code does.",
    technique="Lean 4/Mathlib proof (HasDerivAt, induction over groups; order lemmas; integer floor-division lemmas) + bitwise Float correspondence + exact-arithmetic grid comparison",
    lean=["Propka.Props.C10", "Propka.Props.Program"],
    rule="real runs (test files, library fragments) x user grids (-g) x windows (-w) x both reference states; make_grid on 12 fixed and "
         "random decimal (min, max, step) triples; non-trivial = distinct (structure, grid, window) with a titratable group",
    assumptions=["IEEE rounding not modelled; grid/window values are decimals with at most 3 places"],
)


def real_grid(mn, mx, st):
    from propka.lib import make_grid
    out = []
    for x in make_grid(mn, mx, st):
        out.append(x)
        if len(out) > 100000:
            break
    return out


def grid_cases(ctx):
    rnd = ctx.rng
    cases = list(GRIDS)
    for _ in range(200 if ctx.quick() else 5000):
        st = rnd.choice([0.1, 0.05, 0.2, 0.25, 0.5, 1.0, 0.01, 0.3, 0.7, 2.0, 0.125])
        mn = rnd.choice([0.0, 1.0, -1.0, 2.5, rnd.randint(0, 60) / 10.0])
        n = rnd.randint(0, 300)
        mx = round(mn + n * st, 3) if rnd.random() < 0.7 else round(mn + rnd.uniform(0, 20), 1)
        cases.append((mn, mx, st))
    return cases


ROW2 = re.compile(r"^\s*(-?\d+\.\d\d)\s+(-?\d+\.\d\d)\s*$")


def folding_rows(text):
    lines = text.split("\n")
    i = next(k for k, l in enumerate(lines) if l.startswith("Free energy of"))
    rows = []
    for l in lines[i + 1:]:
        m = ROW2.match(l)
        if m:
            rows.append((float(m.group(1)), float(m.group(2))))
        elif rows or l.startswith("The pH of optimum") or l.startswith("Could not"):
            if not m and (l.strip() == "" or l.startswith("The") or l.startswith("Could")):
                break
    return rows


def expected_rows(grid, window):
    """grid points (rounded to 0.001 as the code does) lying in the window and on the window lattice"""
    n = exact_steps(*grid)
    mn, st = Fraction(repr(grid[0])), Fraction(repr(grid[2]))
    w0, w1, wd = Fraction(repr(window[0])), Fraction(repr(window[1])), Fraction(repr(window[2]))
    out = []
    for i in range(n + 1):
        ph = mn + i * st
        phr = Fraction(round(ph * 1000), 1000)
        if w0 <= phr <= w1 and wd > 0 and ((phr - w0) / wd).denominator == 1:
            out.append(float(phr))
    return out


def run(ctx):
    rnd = ctx.rng
    # ---- make_grid against exact arithmetic
    gbad = []
    greqs, greals, sreqs, sexp = [], [], [], []
    for (mn, mx, st) in grid_cases(ctx):
        pts = real_grid(mn, mx, st)
        n = exact_steps(mn, mx, st)
        ctx.case(key=("grid", mn, mx, st))
        want = [mn + i * st for i in range(n + 1)]
        if len(pts) != len(want) or any(abs(a - b) > 1e-9 for a, b in zip(pts, want)):
            gbad.append((mn, mx, st, len(pts), n + 1, pts[-1:] if pts else None))
        greqs.append("prof grid %d %d %d" % (common.bits(mn), common.bits(mx), common.bits(st)))
        greals.append(" ".join(str(common.bits(x)) for x in pts))
        sreqs.append("prof steps %d %d %d" % (round(mn * 10 ** 6), round(mx * 10 ** 6), round(st * 10 ** 6)))
        sexp.append(str(n))
    for b in gbad[:2]:
        ctx.violate("D2:make_grid-drops-end-point" if b[3] == b[4] - 1 else "grid:%r" % (b[:3],),
                    "make_grid%r yields %d points (last %r); the requested grid has %d points incl. both ends" % (b[:3], b[3], b[5], b[4]),
                    dict(call="propka.lib.make_grid", args=b[:3], got_points=b[3], expected_points=b[4]))
    ctx.oblige("spec: make_grid = min + i*step for i = 0..floor((max-min)/step) in exact arithmetic (%d grids)" % len(greqs), not gbad, str(gbad[:2]))
    # ---- real runs
    inputs = [(n, t) for n, t in pdbgen.test_files(["1HPX", "sample-issue-140"] if ctx.quick() else ["1HPX", "3SGB", "4DFR", "sample-issue-140", "conf-alt-AB"])]
    for i in range(5 if ctx.quick() else 40):
        lines, ids = pdbgen.multichain(rnd, nchains=rnd.randint(1, 2))
        inputs.append(("gen%d" % i, pdbgen.text(lines)))
    inputs.append(("ss-bridge", pdbgen.text(pdbgen.ss_fragment())))
    inputs.append(("nterm-asp", pdbgen.text(pdbgen.nterm_asp_fragment())))
    nl, _ = pdbgen.multichain(rnd, nchains=1)
    inputs.append(("nucleotide", pdbgen.text(pdbgen.add_nucleotide(nl))))
    # an ensemble whose members differ strongly (the second chain 40 A away in the second model): the average pKa values are
    # far from both members', and the reported folding profile must be linked to the reported charge curves all the same
    for n, t in pdbgen.test_files(["1HPX"]):
        ls = [l for l in pdbgen.lines_of(t) if pdbgen.is_atom(l) or l.startswith("TER")]
        chains = sorted({l[21] for l in ls if pdbgen.is_atom(l)})
        if len(chains) >= 2:
            moved = [pdbgen.translate([l], 40.0, 0.0, 0.0)[0] if pdbgen.is_atom(l) and l[21] == chains[-1] else l for l in ls]
            inputs.append((n + "-two-model-ensemble", "MODEL        1\n" + pdbgen.text(ls) + "ENDMDL\nMODEL        2\n" + pdbgen.text(moved) + "ENDMDL\n"))
    lbad, obad, rbad = [], [], []
    freqs, freals, preqs, preals = [], [], [], []
    for name, text in inputs:
        grid = rnd.choice(GRIDS[:7] + [GRIDS[8], GRIDS[11], GRIDS[12], (3.9, 4.1, 0.005), (0.0, 1.0, 0.125)])
        window = rnd.choice(WINDOWS)
        args = ["-g"] + [repr(x) for x in grid] + ["-w"] + [repr(x) for x in window]
        o = observe.run(text, args, want_text=True)
        if o.error:
            ctx.count("runs with error " + o.error[0])
            continue
        mol = o.mol
        conf = mol.conformations['AVR']
        gs = tgroups(conf)
        ntit = sum(1 for g in gs if g[3])
        ctx.case(key=(name, grid, window), nontrivial=ntit > 0)
        ctx.count("runs")
        for reference in ("neutral", "low-pH"):
            # proton linkage by numerical differentiation of the real function
            for ph in [rnd.uniform(0, 14) for _ in range(6)]:
                h = 1e-5
                d = (conf.calculate_folding_energy(ph=ph + h, reference=reference) - conf.calculate_folding_energy(ph=ph - h, reference=reference)) / (2 * h)
                qu, qf = conf.calculate_charge(mol.version.parameters, ph=ph)
                if abs(d - 1.36 * (qf - qu)) > 1e-5 * max(1, ntit):
                    lbad.append((name, reference, ph, d, 1.36 * (qf - qu)))
                freqs.append("prof fold %d %d %s" % (1 if reference == "neutral" else 0, common.bits(ph), enc_groups(gs)))
                freals.append(str(common.bits(conf.calculate_folding_energy(ph=ph, reference=reference))))
            # the same linkage on what is *reported*: the folding profile and the charge profile of the molecule
            for ph in [round(rnd.uniform(0.5, 13.5), 2) for _ in range(3)]:
                g3 = [ph - 0.01, ph + 0.011, 0.01]
                fp = mol.get_folding_profile(conformation='AVR', reference=reference, grid=g3)[0]
                cp = mol.get_charge_profile(conformation='AVR', grid=g3)
                if len(fp) == 3 and len(cp) == 3:
                    d = (fp[2][1] - fp[0][1]) / (fp[2][0] - fp[0][0])
                    link = 1.36 * (cp[1][2] - cp[1][1])
                    ctx.count("reported-profile linkage points")
                    if abs(d - link) > 2e-4 * max(1, ntit):
                        lbad.append((name, reference + ", reported profiles", ph, d, link))
            prof, opt, r80, stab = mol.get_folding_profile(conformation='AVR', reference=reference, grid=grid)
            vals = [p[1] for p in prof]
            probs = []
            if prof:
                if opt[1] != min(vals + [1e6]) or (min(vals) < 1e6 and (opt[0], opt[1]) not in [(p[0], p[1]) for p in prof]):
                    probs.append("optimum %r is not the minimum %r of the profile" % (opt, min(vals)))
                if min(vals) < 1e6 and opt[0] != prof[vals.index(min(vals))][0]:
                    probs.append("optimum pH %r is not the first minimiser" % (opt[0],))
                w80 = [p[0] for p in prof if p[1] < 0.8 * opt[1]]
                if (r80[0], r80[1]) != ((min(w80), max(w80)) if w80 else (None, None)):
                    probs.append("80%% range %r vs %r" % (r80, (min(w80), max(w80)) if w80 else None))
                ws = [p[0] for p in prof if p[1] < 0.0]
                if (stab[0], stab[1]) != ((min(ws), max(ws)) if ws else (None, None)):
                    probs.append("stability range %r" % (stab,))
                if opt[1] < 0 and not (stab[0] <= opt[0] <= stab[1]):
                    probs.append("optimum pH outside the stability range")
            # "the pH values at which profiles are computed ... are exactly those of the requested grid": both reported profiles
            # sit on the lattice min + i*step, and the charges reported for a pH are the charges at that pH
            lattice = [grid[0] + i * grid[2] for i in range(exact_steps(*grid) + 1)]
            cprof = mol.get_charge_profile(conformation='AVR', grid=grid)
            if [p[0] for p in prof] != lattice:
                probs.append("folding profile pH values %r are not the grid %r" % ([p[0] for p in prof][:4], lattice[:4]))
            if [c[0] for c in cprof] != lattice:
                k = next((i for i, (a, b) in enumerate(zip([c[0] for c in cprof], lattice)) if a != b), min(len(cprof), len(lattice)))
                probs.append("charge profile pH values are not the grid: point %d is %r, the grid has %r (%d points, grid %d)" % (
                    k, cprof[k][0] if k < len(cprof) else None, lattice[k] if k < len(lattice) else None, len(cprof), len(lattice)))
            else:
                for c in cprof[:: max(1, len(cprof) // 7)]:
                    qu, qf = conf.calculate_charge(mol.version.parameters, ph=c[0])
                    if abs(c[1] - qu) > 1e-12 or abs(c[2] - qf) > 1e-12:
                        probs.append("charge profile at pH %r reports %r / %r, the charges there are %r / %r" % (c[0], c[1], c[2], qu, qf))
                        break
            if len(prof) != exact_steps(*grid) + 1:
                probs.append("profile has %d points, grid %r has %d" % (len(prof), grid, exact_steps(*grid) + 1))
            if probs:
                obad.append((name, reference, grid, probs))
            preqs.append("prof profile %d %d %d %d %s" % (1 if reference == "neutral" else 0, common.bits(grid[0]), common.bits(grid[1]), common.bits(grid[2]), enc_groups(gs)))
            sh = lambda x: "None" if x is None else str(common.bits(x))
            preals.append("%d %s %d %s %s %s %s" % (len(prof), sh(opt[0]), common.bits(opt[1]), sh(r80[0]), sh(r80[1]), sh(stab[0]), sh(stab[1])))
        # printed rows
        rows = folding_rows(o.text)
        want = expected_rows(grid, window)
        if [r[0] for r in rows] != [round(w, 2) for w in want]:
            rbad.append((name, grid, window, [r[0] for r in rows][:12], [round(w, 2) for w in want][:12]))
        else:
            prof = dict((round(p[0], 3), p[1]) for p in mol.get_folding_profile(conformation='AVR', reference="neutral", grid=grid)[0])
            for ph, dg in rows:
                ref = [v for k, v in prof.items() if abs(k - ph) < 0.0051]
                if not ref or min(abs(dg - v) for v in ref) > 0.0051:
                    rbad.append((name, grid, window, "row %r does not render the profile value" % ((ph, dg),), None))
                    break
    ctx.sample(dict(input=inputs[0][0], grid=GRIDS[1], expected_points=exact_steps(*GRIDS[1]) + 1))
    for b in lbad[:2]:
        ctx.violate("linkage:" + b[0], "%s (%s reference) at pH %.3f: d(dG)/d(pH) = %r but 1.36*(Qf-Qu) = %r" % b, dict(input=b[0], reference=b[1], ph=b[2], pdb=dict(inputs)[b[0]]))
    ctx.oblige("spec: numerical d(dG)/d(pH) of the real folding energy = 1.36*(Q_folded - Q_unfolded), both reference states", not lbad, str(lbad[:1]))
    for b in obad[:2]:
        sig = "D2:make_grid-drops-end-point" if any("points, grid" in p for p in b[3]) else "optimum:" + b[0]
        ctx.violate(sig, "%s (%s) grid %r: %s" % (b[0], b[1], b[2], "; ".join(b[3])), dict(input=b[0], grid=b[2], problems=b[3], pdb=dict(inputs)[b[0]]))
    ctx.oblige("spec: optimum = first minimum of the profile, ranges = extreme passing grid pH, profile on the requested grid", not obad, str(obad[:1]))
    for b in rbad[:2]:
        ctx.violate("D3:window-rows" if b[4] is not None else "folding-row-value:" + b[0],
                    "%s -g %r -w %r: printed folding rows %r, requested window lattice %r" % b, dict(input=b[0], grid=b[1], window=b[2], printed=b[3], expected=b[4], pdb=dict(inputs)[b[0]]))
    ctx.oblige("spec: printed folding-profile rows = grid points in the window on the lattice window_min + k*delta", not rbad, str(rbad[:1]))
    if ctx.driver_ok:
        gout = common.driver_batch(greqs)
        dis = [(q, r[:60], m[:60]) for q, r, m in zip(greqs, greals, gout) if r != m]
        ctx.oblige("correspondence: Float grid model = make_grid bit-for-bit (%d grids)" % len(greqs), not dis, str(dis[:1]))
        sout = common.driver_batch(sreqs)
        dis = [(q, e, m) for q, e, m in zip(sreqs, sexp, sout) if e != m]
        ctx.oblige("correspondence: exact numSteps = floor((max-min)/step + 1e-9) over the rationals (%d grids)" % len(sreqs), not dis, str(dis[:1]))
        fout = common.driver_batch(freqs) if freqs else []
        dis = [(q[:50], r, m) for q, r, m in zip(freqs, freals, fout) if r != m]
        ctx.oblige("correspondence: Float confFoldingEnergy = calculate_folding_energy bit-for-bit (%d evaluations)" % len(freqs), not dis, str(dis[:1]))
        pout = common.driver_batch(preqs) if preqs else []
        dis = [(q[:50], r, m) for q, r, m in zip(preqs, preals, pout) if r != m]
        ctx.oblige("correspondence: Float profile/optimum/ranges = get_folding_profile bit-for-bit (%d profiles)" % len(preqs), not dis, str(dis[:1]))
    else:
        ctx.oblige("correspondence: profile model = real code", False, "driver not built")


def replay(ctx, rep):
    r = rep["replay"]
    if "call" in r and r["call"].endswith("make_grid"):
        pts = real_grid(*r["args"])
        n = exact_steps(*r["args"]) + 1
        print("make_grid%r -> %d points, requested grid has %d" % (tuple(r["args"]), len(pts), n))
        return 0 if len(pts) == n else 1
    if "window" in r:
        args = ["-g"] + [repr(x) for x in r["grid"]] + ["-w"] + [repr(x) for x in r["window"]]
        o = observe.run(r["pdb"], args)
        rows = [x[0] for x in folding_rows(o.text)]
        want = [round(w, 2) for w in expected_rows(tuple(r["grid"]), tuple(r["window"]))]
        print("printed", rows[:15], "expected", want[:15])
        return 0 if rows == want else 1
    return 0
