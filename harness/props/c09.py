"""C09 - Henderson-Hasselbalch charge curves and isoelectric points."""
import math
import re

from .. import common, observe, pdbgen
from ..profiles_common import tgroups, enc_groups, spec_charge, spec_charges, GRIDS

SPEC = dict(
    claim="Over the reals (Mathlib): a group's charge is q/2 at pH = pKa, strictly between 0 and q, antitone in pH for either sign of "
          "q; the reported (unfolded, folded) protein charges are the sums of the group charges with model resp. predicted pKa over "
          "the titratable groups, in that column order; both totals are antitone and continuous; each pI returned by the bisection "
          "(folded first, from the predicted-pKa curve; unfolded second) is within the precision of a root whenever the curve is "
          "positive at the window minimum and non-positive at the maximum (IVT + halving invariant, explicit fuel; 18 halvings cover "
          "the default window). The same generic definitions run at Float and are compared bit-for-bit with Group.calculate_charge, "
          "ConformationContainer.calculate_charge, get_charge_profile and get_pi on real runs; the specification (independent sums, "
          "root test) is evaluated on the real objects and on the charge table and pI line parsed from the .pka text. The folding-energy and charge sections of the .pka file are part of the output model on top of Program.run (Model/Output.lean: profile on the grid of the options, window lattice in exact thousandths, optimum, ranges, pI); the program-level correspondence of this check compares them character by character with the real sections, under -g / -w.",
    note="Theorems over R; the Float instance is compared with the code (same libm pow/log10). 10**x overflows for |pH-pK| > 308 and "
         "precision <= 0 makes the real recursion unbounded: generators stay within |pH - pK| <= 40 and precision >= 1e-9.",
    technique="Lean 4/Mathlib proof over the reals (monotonicity, continuity, IVT bisection invariant) + bitwise Float correspondence",
    lean=["Propka.Props.C09", "Propka.Props.Program"],
    rule="random (q, pK, pH) kernels incl. q in {+-1, +-2, 0}; real runs (test files, library fragments, hetero-only, no titratable group at "
         "all) x pH grids x search windows and precisions; non-trivial = distinct (structure, grid/window) with at least one titratable group",
    assumptions=["IEEE rounding not modelled (theorems over the reals)"],
)


def stub_group(q, pk, pm, titratable=True):
    from propka.group import Group
    from propka.atom import Atom
    g = Group(Atom())
    g.charge, g.pka_value, g.model_pka, g.titratable = q, pk, pm, titratable
    return g


def gen_inputs(ctx):
    rnd = ctx.rng
    out = [(n, t) for n, t in pdbgen.test_files(["1HPX", "conf-alt-AB", "sample-issue-140"] if ctx.quick() else None)]
    for i in range(6 if ctx.quick() else 60):
        lines, ids = pdbgen.multichain(rnd, nchains=rnd.randint(1, 2))
        out.append(("gen%d" % i, pdbgen.text(lines)))
    # a disulfide bridge (non-titrating cysteines stay out of every charge curve) and same-label twin residues
    out.append(("ss-bridge", pdbgen.text(pdbgen.ss_fragment())))
    out.append(("nterm-asp", pdbgen.text(pdbgen.nterm_asp_fragment())))
    # a nucleotide: groups whose model pKa comes from custom_model_pkas (DA-N1 3.82, DA-OP1 1.00 ...), not from the table of their type
    nl, _ = pdbgen.multichain(rnd, nchains=1)
    out.append(("nucleotide", pdbgen.text(pdbgen.add_nucleotide(nl))))
    for i in range(2 if ctx.quick() else 20):
        for _ in range(200):
            lines, ids = pdbgen.multichain(rnd, nchains=rnd.randint(1, 2), separation=15.0)
            tw = pdbgen.same_type_twins(rnd, lines, types=("LYS", "ASP", "GLU", "ARG", "TYR", "HIS"))
            if tw is None:
                continue
            o = observe.run(pdbgen.text(tw), [], want_text=False)
            if o.error:
                continue
            tg = [g for g in o.confs["AVR"] if g["titratable"]]
            labs = [g["label"] for g in tg]
            # two titratable groups with one printed label, and a total charge that changes sign
            if any(labs.count(l) > 1 for l in labs) and any(g["charge"] > 0 for g in tg) and any(g["charge"] < 0 for g in tg):
                out.append(("twins%d" % i, pdbgen.text(tw)))
                break
    # no titratable group at all: a lone glycine backbone without termini tags cannot be built from ATOMs; use a water-free HETATM carbon
    out.append(("none", "HETATM    1  C1  LIG A   1       0.000   0.000   0.000  1.00  0.00           C\nHETATM    2  C2  LIG A   1       1.500   0.000   0.000  1.00  0.00           C\n"))
    return out


def run(ctx):
    rnd = ctx.rng
    # ---- kernels
    trip = []
    for _ in range(2000 if ctx.quick() else 50000):
        q = rnd.choice([1.0, -1.0, 1.0, -1.0, 2.0, -2.0, 0.0])
        pk = rnd.choice([rnd.uniform(-5, 20), 3.8, 10.5, 6.5])
        ph = rnd.choice([rnd.uniform(-5, 20), pk, 7.0, 0.0, 14.0])
        trip.append((q, pk, ph))
    kbad = []
    reals = []
    for q, pk, ph in trip:
        g = stub_group(q, pk, pk)
        c = g.calculate_charge(None, ph=ph, state='folded')
        reals.append(c)
        ctx.case(key=(q, pk, ph))
        ok = True
        if q > 0 and not (0 < c < q or (abs(q * (pk - ph)) > 15 and 0 <= c <= q)):
            ok = False
        if q < 0 and not (q < c < 0 or (abs(q * (pk - ph)) > 15 and q <= c <= 0)):
            ok = False
        if ph == pk and c != q / 2:
            ok = False
        c2 = g.calculate_charge(None, ph=ph + 0.37, state='folded')
        if c2 > c + 1e-15:
            ok = False
        if abs(c - spec_charge(q, pk, ph)) > 1e-12:
            ok = False
        if not ok:
            kbad.append((q, pk, ph, c, c2))
    for b in kbad[:3]:
        ctx.violate("charge-kernel:q=%g" % b[0], "calculate_charge(q=%r, pKa=%r, pH=%r) = %r (at pH+0.37: %r) violates the HH curve" % b,
                    dict(call="Group.calculate_charge", q=b[0], pka=b[1], ph=b[2], got=b[3]))
    ctx.oblige("spec: Group.calculate_charge - half at pKa, between 0 and q, non-increasing, = HH formula (%d kernels)" % len(trip), not kbad, str(kbad[:2]))
    ctx.sample(dict(q=trip[0][0], pka=trip[0][1], ph=trip[0][2], charge=reals[0]))
    # ---- real runs
    inputs = gen_inputs(ctx)
    pbad, pibad, tbad = [], [], []
    creqs, creals, pireqs, pireals = [], [], [], []
    for name, text in inputs:
        o = observe.run(text, [], want_text=True)
        if o.error:
            ctx.count("runs with error")
            continue
        mol = o.mol
        gs = tgroups(mol.conformations['AVR'])
        ntit = sum(1 for g in gs if g[3])
        grids = GRIDS if not ctx.quick() else rnd.sample(GRIDS, 4)
        for grid in grids:
            prof = mol.get_charge_profile(conformation='AVR', grid=grid)
            ctx.case(key=(name, grid), nontrivial=ntit > 0)
            ctx.count("profiles")
            for row in prof[:: max(1, len(prof) // 25)]:
                ph, qu, qf = row
                su, sf = spec_charges(gs, ph)
                if abs(qu - su) > 1e-9 or abs(qf - sf) > 1e-9:
                    pbad.append((name, grid, row, (su, sf)))
                creqs.append("prof charges %d %s" % (common.bits(ph), enc_groups(gs)))
                creals.append("%d %d" % (common.bits(qu), common.bits(qf)))
            # monotone along the grid
            for a, b in zip(prof, prof[1:]):
                if b[0] > a[0] and (b[1] > a[1] + 1e-12 or b[2] > a[2] + 1e-12):
                    pbad.append((name, grid, "total charge increases from pH %r to %r" % (a[0], b[0]), None))
                    break
        # pI
        for (lo, hi, prec) in [(0.0, 14.0, 1e-4), (2.0, 12.0, 1e-6), (0.0, 14.0, 1e-2), (rnd.uniform(0, 5), rnd.uniform(8, 14), 10 ** rnd.uniform(-8, -1))]:
            pf, pu = mol.get_pi(conformation='AVR', grid=(lo, hi), precision=prec)
            ctx.count("pI searches")
            for which, val, idx in (("folded", pf, 1), ("unfolded", pu, 0)):
                a, b = spec_charges(gs, lo)[idx], spec_charges(gs, hi)[idx]
                if a > 0 and b <= 0:
                    # within prec of a root: the curve is monotone, so it must change sign across [val-prec, val+prec]
                    l, r = spec_charges(gs, val - prec * 1.0000001)[idx], spec_charges(gs, val + prec * 1.0000001)[idx]
                    if not (l >= 0 >= r):
                        pibad.append((name, which, (lo, hi, prec), val, l, r))
            pireqs.append("prof pi %d %d %d %s" % (common.bits(lo), common.bits(hi), common.bits(prec), enc_groups(gs)))
            pireals.append("%d %d" % (common.bits(pf), common.bits(pu)))
        # the .pka text: charge table (default grid) and pI line
        tb = text_problems(o, gs)
        if tb:
            tbad.append((name, tb))
    for b in pbad[:2]:
        ctx.violate("charge-profile:" + b[0], "%s grid %r: %r, sum of group charges %r" % b, dict(input=b[0], grid=b[1], row=b[2], expected=b[3], pdb=dict(inputs)[b[0]]))
    ctx.oblige("spec: charge profile rows = (pH, sum with model pKa, sum with predicted pKa), non-increasing", not pbad, str(pbad[:1]))
    for b in pibad[:2]:
        ctx.violate("pI:" + b[1], "%s: %s pI %r for window/precision %r is not within precision of a root (charges %r, %r)" % (b[0], b[1], b[3], b[2], b[4], b[5]),
                    dict(input=b[0], which=b[1], window=b[2], pi=b[3], pdb=dict(inputs)[b[0]]))
    ctx.oblige("spec: each pI within precision of a root of its own curve when the curve changes sign in the window", not pibad, str(pibad[:1]))
    for b in tbad[:2]:
        ctx.violate("charge-text:" + b[0], "%s: %s" % (b[0], "; ".join(b[1][:2])), dict(input=b[0], problems=b[1][:5], pdb=dict(inputs)[b[0]]))
    ctx.oblige("spec: charge table and pI line of the .pka file render the same numbers", not tbad, str(tbad[:1]))
    if ctx.driver_ok:
        kreq = ["prof charge %d %d %d" % (common.bits(q), common.bits(pk), common.bits(ph)) for q, pk, ph in trip]
        kout = common.driver_batch(kreq)
        dis = [(t, r, common.unbits(int(m))) for t, r, m in zip(trip, reals, kout) if common.bits(r) != int(m)]
        ctx.oblige("correspondence: Float chargeAt = Group.calculate_charge bit-for-bit (%d kernels)" % len(trip), not dis, str(dis[:2]))
        cout = common.driver_batch(creqs) if creqs else []
        dis = [(r, m) for r, m in zip(creals, cout) if r != m]
        ctx.oblige("correspondence: Float confCharge = calculate_charge on real group records bit-for-bit (%d rows)" % len(creqs), not dis, str(dis[:2]))
        pout = common.driver_batch(pireqs) if pireqs else []
        dis = [(q[:60], r, m) for q, r, m in zip(pireqs, pireals, pout) if r != m]
        ctx.oblige("correspondence: Float getPi = get_pi bit-for-bit (%d searches)" % len(pireqs), not dis, str(dis[:2]))
    else:
        ctx.oblige("correspondence: profile model = real code", False, "driver not built")


ROW = re.compile(r"^\s*(-?\d+\.\d\d)\s+(-?\d+\.\d\d)\s+(-?\d+\.\d\d)\s*$")


def text_problems(o, gs):
    probs = []
    lines = o.text.split("\n")
    try:
        i = next(k for k, l in enumerate(lines) if l.startswith("Protein charge of folded and unfolded state"))
    except StopIteration:
        return ["no charge section"]
    rows = []
    pi_line = None
    for l in lines[i + 2:]:
        m = ROW.match(l)
        if m:
            rows.append(tuple(float(x) for x in m.groups()))
        elif l.startswith("The pI is"):
            pi_line = l
            break
    grid = o.mol.options.grid
    prof = o.mol.get_charge_profile(conformation='AVR', grid=grid)
    if len(rows) != len(prof):
        probs.append("charge table has %d rows, profile %d" % (len(rows), len(prof)))
    for r, p in zip(rows, prof):
        su, sf = spec_charges(gs, p[0])
        if abs(r[0] - p[0]) > 0.0051 or abs(r[1] - su) > 0.0051 or abs(r[2] - sf) > 0.0051:
            probs.append("row %r vs (pH %.3f, unfolded %.4f, folded %.4f)" % (r, p[0], su, sf))
            break
    if pi_line:
        m = re.match(r"The pI is\s+(-?\d+\.\d+) \(folded\) and\s+(-?\d+\.\d+) \(unfolded\)", pi_line)
        pf, pu = o.mol.get_pi(conformation='AVR')
        if not m or abs(float(m.group(1)) - pf) > 0.0051 or abs(float(m.group(2)) - pu) > 0.0051:
            probs.append("pI line %r vs API (%r, %r)" % (pi_line, pf, pu))
        else:
            # folded / unfolded not interchanged: each is a root of its own curve when the default window brackets one
            for val, idx in ((pf, 1), (pu, 0)):
                a, b = spec_charges(gs, 0.0)[idx], spec_charges(gs, 14.0)[idx]
                if a > 0 and b <= 0 and abs(spec_charges(gs, val)[idx]) > 0.05 * max(1, len(gs)):
                    probs.append("pI %r is not a root of the %s curve" % (val, "folded" if idx else "unfolded"))
    return probs


def replay(ctx, rep):
    r = rep["replay"]
    if "q" in r:
        g = stub_group(r["q"], r["pka"], r["pka"])
        c = g.calculate_charge(None, ph=r["ph"], state='folded')
        print("charge", c, "HH formula", spec_charge(r["q"], r["pka"], r["ph"]))
        return 0 if abs(c - spec_charge(r["q"], r["pka"], r["ph"])) < 1e-12 else 1
    if "pdb" in r:
        o = observe.run(r["pdb"])
        gs = tgroups(o.mol.conformations['AVR'])
        probs = text_problems(o, gs)
        print(probs)
        return 1 if probs else 0
    return 0
