"""C01 - every ionizable group exactly once with the right model pKa: independent residue-level
specification of chain starts and sites vs the real parser / pipeline / .pka summary, and the Lean
parser + census models vs the real code."""
import io
import re

from .. import common, observe, pdbgen
from . import c13

SPEC = dict(
    claim="Lean theorems: the N+/C- bookkeeping of the parser is characterised rule by rule (first ATOM after start/MODEL/TER opens a "
          "chain, a terminal oxygen closes it, the next different residue opens the next, HETATM and other records are no-ops) and "
          "simulates a bookkeeping keyed by any finer residue identity under an explicit agreement hypothesis (with the decided "
          "counter-example for a number-only key); groups are exactly the images of the atoms the classifier accepts, in order; the "
          "shipped tables give the nine site kinds their charge and the tabulated model pKa (decide over the regenerated cfg); a "
          "bridged cysteine is non-titratable and fixed at 99.99; ions get their configured charge; the summary lists a group as "
          "often as the group list does when write_out_order is duplicate-free and contains its residue type (both decided). "
          "The parser and census models are compared with the real code; an independent residue-level specification of the sites "
          "is evaluated against the real parser, every conformation's groups and the parsed summary of the written .pka. "
          "Group set-up is modelled too (Model/Setup.lean): setup_atoms of every group class (centre atoms, interaction atoms for acids / for bases), set_center, the ring search of the histidine set-up, the covalent coupling search find_covalently_coupled_groups, and the ligand classifier is_ligand_group_by_groups; on every distinct conformation this check runs, centres (bit patterns), both interaction-atom lists, the coupling lists and the class of every hetero atom are compared with the real objects. The scoring model is compared as well. Theorems: ligand_classes_known (every class the ligand classifier can name is a class of propka.group with a residue type of its own and is known to the set-up model - decided on the regenerated class list), ligandClass_mem (whatever the atoms, bonds and SYBYL types, the classifier names one of those classes or none), mem_couple / couple_sym / covalentCoupling_sym (couple_covalently adds exactly the two mutual entries; the coupling lists are symmetric). The set-up pipeline is modelled as a whole (Model/Pipeline.lean: bonding by cells as a state machine on the bond lists, SYBYL typing of hetero atoms, pi electrons, the Protonate state machine, extract_groups with the set-up of every group class, sort_atoms, covalent coupling) and composed with the parser, top-up and scoring models into Program.run - the program as one Lean function from the PDB text; on the texts this check runs the real program and Program.run agree on every atom (built hydrogens bit for bit), group, determinant, on the average conformation and on the summary section. Theorems on it (Props/Pipeline.lean): extract_groups_once (the atoms that define the groups of a conformation are a duplicate-free sublist of its non-hydrogen atoms, in order - for every input, table and option), extract_groups_heavy, bridged_not_titratable.",
    note="Ligand typing (SYBYL perception) is not modelled: for hetero groups the check verifies, on the real objects, that whatever "
         "group the classifier returned carries the model pKa/charge configured for its type. The census model is trace-driven for "
         "the bond-derived inputs (bonded-oxygen count, disulfide flag).",
    technique="Lean 4 proof (simulation between key choices, case rules, table obligations by decide) + differential correspondence + independent spec evaluation",
    lean=["Propka.Props.C01", "Propka.Props.C01Coupling", "Propka.Props.Pipeline"],
    rule="test files and library multi-chain structures with every TER spelling / no TER, OXT present-absent-not last, alt-loc, "
         "HETATM first, negative and insertion-coded numbering incl. twins, numbering restarting in a second chain, ions, ligands, x "
         "{no option, -c, -i}; non-trivial = a structure with at least two ionizable sites",
    assumptions=["ASCII input; plain fixed-point numeric fields"],
)

KINDS = {("ASP", "CG"): "ASP", ("GLU", "CD"): "GLU", ("HIS", "CG"): "HIS", ("CYS", "SG"): "CYS", ("TYR", "OH"): "TYR",
         ("LYS", "NZ"): "LYS", ("ARG", "CZ"): "ARG"}
MODEL_PKA = {"ASP": 3.80, "GLU": 4.50, "HIS": 6.50, "CYS": 9.00, "TYR": 10.00, "LYS": 10.50, "ARG": 12.50, "N+": 8.00, "C-": 3.20}


def spec_tags(lines, ignore, chains):
    """residue-level specification of the terminal tags: {line index: 'N+'|'C-'}"""
    tags = {}
    start, after_oxt = None, None
    for i, l in enumerate(lines):
        tag = l[:6]
        if tag == "MODEL " or tag.strip() == "TER":
            start = None
            # a TER/MODEL does not forget the residue that carried the terminal oxygen
            continue
        if tag not in ("ATOM  ", "HETATM"):
            continue
        if l[17:20] in ignore or (chains and l[21] not in chains):
            continue
        if tag != "ATOM  ":
            continue
        rid = l[21:27]
        name = l[12:16].strip()
        if start is None and rid != after_oxt:
            start, after_oxt = rid, None
        if name == "N" and rid == start:
            tags[i] = "N+"
        if name in ("OXT", "O''"):
            tags[i] = "C-"
            start, after_oxt = None, rid
    return tags


def real_tags(text, ignore, chains):
    """terminal flags of the real parser keyed by line index (hydrogens kept so every record is seen)"""
    from propka.input import get_atom_lines_from_pdb
    lines = pdbgen.lines_of(text)
    # keyed by identity of the atom's source line: re-parse line by line is not possible (streaming state), so match by order
    recs = [i for i, l in enumerate(lines) if l[:6] in ("ATOM  ", "HETATM") and not (l[17:20] in ignore or (chains and l[21] not in chains))]
    out = list(get_atom_lines_from_pdb(io.StringIO(text), ignore_residues=ignore, keep_protons=True, chains=chains))
    if len(out) != len(recs):
        return None
    return {i: a.terminal for i, (_, a) in zip(recs, out) if a.terminal}


def expected_site(atom):
    """the kind of ionizable site an atom of a conformation defines (None if none)"""
    if atom.type != "atom":
        return None
    if atom.terminal in ("N+", "C-"):
        return atom.terminal
    return KINDS.get((atom.res_name, atom.name))


def census_problems(o):
    probs = []
    nsites = 0
    for cname, conf in o.mol.conformations.items():
        if cname == "AVR":
            continue
        by_atom = {}
        for g in conf.groups:
            by_atom.setdefault(id(g.atom), []).append(g)
        for a in conf.atoms:
            if a.element == "H":
                continue
            kind = expected_site(a)
            gs = by_atom.get(id(a), [])
            if kind:
                nsites += 1
                if len(gs) != 1:
                    probs.append("%s: site %s of %s has %d groups" % (cname, kind, a.residue_label, len(gs)))
                    continue
                g = gs[0]
                if g.residue_type != kind:
                    probs.append("%s: %s reported as %s" % (cname, kind, g.residue_type))
                if abs(g.model_pka - MODEL_PKA[kind]) > 1e-12:
                    probs.append("%s: %s has model pKa %r" % (cname, g.label, g.model_pka))
                if a.cysteine_bridge:
                    if g.titratable or abs(g.pka_value - 99.99) > 1e-9:
                        probs.append("%s: bridged %s titratable=%s pKa=%r" % (cname, g.label, g.titratable, g.pka_value))
                elif not g.titratable and getattr(o.mol.options, "titrate_only", None) is None:
                    # the site is predicted: it titrates (only --titrate_only and a disulfide bridge switch that off)
                    probs.append("%s: site %s is present but not titrated" % (cname, g.label))
        # nothing that is not in the structure: every titratable protein group sits on a defining atom of this conformation
        atom_ids = {id(a) for a in conf.atoms}
        for g in conf.groups:
            if g.atom.type == "atom" and (g.titratable or g.residue_type == "CYS"):
                if id(g.atom) not in atom_ids or expected_site(g.atom) != g.residue_type:
                    probs.append("%s: group %s (%s) has no defining atom" % (cname, g.label, g.residue_type))
        # ligand groups and ions: configured model pKa / charge of their type
        P = conf.parameters
        for g in conf.groups:
            if g.residue_type in P.ions and g.charge != P.ions[g.residue_type]:
                probs.append("%s: ion %s charge %r" % (cname, g.label, g.charge))
            if g.atom.type == "hetatm" and g.type not in ("ION",):
                if g.type in P.charge and g.residue_type not in P.ions and g.charge != P.charge[g.type]:
                    probs.append("%s: ligand group %s charge %r, configured %r" % (cname, g.label, g.charge, P.charge[g.type]))
                if g.residue_type in P.model_pkas:
                    key = "%s-%s" % (g.atom.res_name.strip(), g.atom.name.strip())
                    want = P.custom_model_pkas.get(key, P.model_pkas[g.residue_type])
                    if abs(g.model_pka - want) > 1e-12:
                        probs.append("%s: ligand group %s model pKa %r, configured %r" % (cname, g.label, g.model_pka, want))
        # a ligand carboxylate, read off the bonds alone: a hetero carbon bonded to one carbon and to two oxygens that have no
        # other bond is an OCO group with the configured model pKa - whatever the order of the records
        for a in conf.atoms:
            if a.type != "hetatm" or a.element != "C" or a.res_name.strip() in P.ions:
                continue
            nb = a.bonded_atoms
            ox = [b for b in nb if b.element == "O"]
            if len(nb) == 3 and len(ox) == 2 and sum(1 for b in nb if b.element == "C") == 1 and all(len(b.bonded_atoms) == 1 for b in ox):
                nsites += 1
                gs = [g for g in by_atom.get(id(a), [])]
                if len(gs) != 1 or gs[0].type != "OCO" or "OCO" not in P.model_pkas:
                    probs.append("%s: ligand carboxylate %s (%s) is %s" % (cname, a.residue_label, ",".join(b.name for b in ox),
                                                                         [g.type for g in gs] or "not a group"))
    return probs, nsites


def oxygens_first(lines):
    """the records of every hetero residue re-ordered: its oxygens first (a legal order: tartrate is deposited as O1 O11 C1 ...)"""
    out = []
    for it in pdbgen.split_residues(lines):
        if it[0] == "res" and it[2][0].startswith("HETATM") and len(it[2]) > 2:
            out += [l for l in it[2] if l[12:16].strip().startswith("O")] + [l for l in it[2] if not l[12:16].strip().startswith("O")]
        else:
            out += it[2]
    return out


def altloc_on_ligand_oxygen(lines):
    """one oxygen of a hetero carboxylate gets alternate locations A and B (0.1 A apart): in conformation B it precedes its carbon"""
    out, done = [], False
    for it in pdbgen.split_residues(lines):
        if not done and it[0] == "res" and it[2][0].startswith("HETATM") and len(it[2]) > 4:
            ox = [l for l in it[2] if l[12:16].strip().startswith("O") and l[16] == " "]
            if ox:
                l = ox[-1]
                x, y, z = pdbgen.coords(l)
                for m in it[2]:
                    if m is l:
                        out.append(pdbgen.setcols(m, 16, 17, "A"))
                        out.append(pdbgen.setcols(pdbgen.set_coords(m, round(x + 0.1, 3), y, z), 16, 17, "B"))
                    else:
                        out.append(m)
                done = True
                continue
        out += it[2]
    return out if done else None


SUMMARY_RE = re.compile(r"^   (.{9}) (.{8}) (.{10}) ")


def summary_problems(o, dropped=None):
    """problems of the summary section; `dropped` collects the protein sites that exist in the results but are left out of the
    summary (and of the determinant table) because they were penalised as members of a covalently coupled system"""
    probs = []
    dropped = dropped if dropped is not None else []
    lines = o.text.split("\n")
    try:
        i = next(k for k, l in enumerate(lines) if l.startswith("SUMMARY OF THIS PREDICTION"))
    except StopIteration:
        return ["no summary section"]
    rows = []
    for l in lines[i + 2:]:
        if l.startswith("-----"):
            break
        m = SUMMARY_RE.match(l)
        if m:
            rows.append((m.group(1), float(m.group(2)), float(m.group(3))))
    rep = o.reported("AVR")
    if o.mol.version.parameters.remove_penalised_group:
        for g in rep:
            if g["penalised"] and g["atom_type"] == "atom":
                dropped.append((g["label"], g["penalised"], g["type"]))
    want = sorted((("%9s" % g["label"]), round(g["pka"], 2), round(g["model_pka"], 2)) for g in rep if not (g["penalised"] and o.mol.version.parameters.remove_penalised_group))
    have = sorted((a, round(b, 2), round(c, 2)) for a, b, c in rows)
    if [w[0] for w in want] != [h[0] for h in have]:
        probs.append("summary rows %r, reported groups %r" % ([h[0] for h in have][:8], [w[0] for w in want][:8]))
    else:
        for w, h in zip(want, have):
            if abs(w[1] - h[1]) > 0.0051 or abs(w[2] - h[2]) > 0.0051:
                probs.append("summary row %r vs group %r" % (h, w))
    return probs


def twin_variants(rnd, lines):
    """numbering patterns that stress the chain-start rule"""
    items = [it for it in pdbgen.split_residues(lines)]
    res = [k for k, it in enumerate(items) if it[0] == "res" and it[2][0].startswith("ATOM")]
    v = rnd.randrange(4)
    if v == 0 and len(res) >= 2:        # second residue = first residue's number + insertion code A
        first, second = items[res[0]], items[res[1]]
        num = first[2][0][22:26]
        items[res[1]] = ("res", None, [pdbgen.setcols(pdbgen.setcols(l, 22, 26, num), 26, 27, "A") for l in second[2]])
    elif v == 1 and len(res) >= 4:      # a later residue re-uses the first residue's number in another chain, no TER between
        first = items[res[0]]
        num = first[2][0][22:26]
        k = res[len(res) // 2]
        for kk in res[len(res) // 2:]:
            items[kk] = ("res", None, [pdbgen.setcols(l, 21, 22, "Z") for l in items[kk][2]])
        items[k] = ("res", None, [pdbgen.setcols(l, 22, 26, num) for l in items[k][2]])
    elif v == 2:                        # negative numbering
        return pdbgen.relabel(lines, shift=-(int(items[res[0]][2][0][22:26]) + rnd.randint(1, 30)))
    return pdbgen.flatten(items)


def gen_inputs(ctx):
    rnd = ctx.rng
    out = []
    # witnesses of listed findings run first, so that a listed finding is reported on every run while it persists
    import json
    for f in sorted(common.CORPUS.glob("C01-*.json")):
        r = json.loads(f.read_text())["replay"]
        out.append(("corpus:" + f.name, r["pdb"], r.get("args", [])))
    for name, t in pdbgen.test_files(["1HPX", "conf-alt-AB", "conf-model-missing-atoms", "sample-issue-140", "1FTJ-Chain-A"] if ctx.quick() else None):
        out.append((name, t, []))
    # two titratable groups of one type that print the same label (insertion-coded twins): searched for until the structure
    # really has them, so that every run meets a summary in which two rows carry one label
    for _ in range(200):
        tl, tids = pdbgen.multichain(rnd, nchains=1, twins=0.0)
        tw = pdbgen.same_type_twins(rnd, tl, types=("LYS", "ASP", "GLU", "ARG", "TYR", "HIS"))
        if tw is None:
            continue
        o = observe.run(pdbgen.text(tw), [], want_text=False)
        labs = [g["label"] for g in o.confs.get("AVR", []) if g["titratable"]] if not o.error else []
        if any(labs.count(l) > 1 for l in labs):
            out.append(("same-label-twins", pdbgen.text(tw), []))
            break
    # a chain without identifier next to a named one, selected with a space - alone and together with the named chain
    bl, bids = pdbgen.multichain(rnd, nchains=2, chains="AB", twins=0.0)
    if len(bids) == 2:
        bl = [pdbgen.setcols(l, 21, 22, " ") if pdbgen.is_atom(l) and l[21] == bids[0] else l for l in bl]
        for a in (["-c", " "], ["-c", " ", "-c", bids[1]], ["-c", bids[1], "-c", " "]):
            out.append(("blank-chain " + repr(a), pdbgen.text(bl), a))
    # ligands whose records come in another order, or whose atoms have alternate locations: perception must not depend on it
    for name, t in pdbgen.test_files(["1FTJ-Chain-A"] if ctx.quick() else ["1FTJ-Chain-A", "4DFR", "1HPX"]):
        ls = pdbgen.lines_of(t)
        out.append((name + "+ligand-oxygens-first", pdbgen.text(oxygens_first(ls)), []))
        al = altloc_on_ligand_oxygen(ls)
        if al is not None and "4DFR" not in name:
            out.append((name + "+ligand-altloc", pdbgen.text(al), []))
    for i in range(40 if ctx.quick() else 500):
        ter = rnd.choice(["TER   \n", "TER\n", None, "TER      12      ALA A  12\n", "TER  \n"])
        lines, ids = pdbgen.multichain(rnd, ter=ter, oxt_prob=rnd.choice([0, 0.5, 1]))
        if rnd.random() < 0.5:
            lines = twin_variants(rnd, lines)
        if i % 8 == 0:
            # a chain that ends with a terminal oxygen, followed (with or without TER) by a chain whose first residue carries the
            # same number: only the chain identifier tells the two residues apart
            l2, ids2 = pdbgen.multichain(rnd, nchains=2, ter=ter, oxt_prob=1.0, twins=0.0)
            c1, c2 = ids2
            n1 = [int(l[22:26]) for l in l2 if pdbgen.is_atom(l) and l[21] == c1]
            n2 = [int(l[22:26]) for l in l2 if pdbgen.is_atom(l) and l[21] == c2]
            if n1 and n2:
                sh = n1[-1] - n2[0]
                if -999 < min(n2) + sh and max(n2) + sh < 9999:
                    lines = [pdbgen.setcols(l, 22, 26, "%4d" % (int(l[22:26]) + sh)) if pdbgen.is_atom(l) and l[21] == c2 else l for l in l2]
                    ids = ids2
        if i % 5 == 2:
            # incomplete residues: the defining atom of a site stays, the hetero atoms at the end of the side chain are gone
            # (ASP keeps CG without OD1/OD2, HIS keeps CG without its ring nitrogens, ARG keeps CZ alone) - the site is still there
            lines = pdbgen.truncate_sidechains(rnd, lines, rnd.randint(1, 3), types=rnd.choice([None, ("ASP", "GLU"), ("HIS", "ARG")]))
        if rnd.random() < 0.3:
            lines = pdbgen.insert_at_random(rnd, lines, pdbgen.JUNK, rnd.randint(1, 3))
        if rnd.random() < 0.25:     # HETATM before the first ATOM
            lines = [pdbgen.water(rnd, lines, resname=rnd.choice(["HOH", " ZN", " CA"]))] + lines
        args = []
        if rnd.random() < 0.3:
            args = ["-c", rnd.choice(ids)]
        elif rnd.random() < 0.3:
            atoms = [l for l in lines if pdbgen.is_atom(l)]
            picks = rnd.sample(atoms, min(3, len(atoms)))
            args = ["-i", ",".join("%s:%d%s" % (l[21].strip() or "_", int(l[22:26]), l[26].strip()) for l in picks)]
        out.append(("gen%d" % i, pdbgen.text(lines), args))
    return out


def _run(ctx):
    inputs = gen_inputs(ctx)
    from propka.parameters import Parameters
    from propka.input import read_parameter_file
    ignore = read_parameter_file("propka.cfg", Parameters()).ignore_residues
    tag_bad, census_bad, summary_bad, drop_bad = [], [], [], []
    reqs, reals = [], []
    creqs, creals = [], []
    for name, text, args in inputs:
        chains = [args[k + 1] for k in range(0, len(args) - 1) if args[k] == "-c"] or None
        lines = pdbgen.lines_of(text)
        # A. terminal tags at text level
        st, rt = spec_tags(lines, ignore, chains), real_tags(text, ignore, chains)
        if rt is None or st != rt:
            d = None if rt is None else sorted(set(st.items()) ^ set(rt.items()))[:4]
            tag_bad.append((name, args, [(i, t, lines[i].rstrip()) for i, t in (d or [])], text))
        # model correspondence of the parser on the same input
        reqs.append(c13.model_req(text, False, chains or []))
        reals.append(c13.real_parse(text, False, chains, ignore))
        # B, C. census and summary on the real run
        o = observe.run(text, args, want_text=True)
        if o.error:
            ctx.count("runs with error " + o.error[0])
            ctx.case(key=(name, tuple(args)), nontrivial=False)
            continue
        probs, nsites = census_problems(o)
        if chains:
            # "nothing that is not in the structure is reported": with a selection the structure is the selected chains, and every
            # selected chain that has atoms in the text is read (a blank identifier is selected with a space and reported as '_')
            sel = {c if c != " " else "_" for c in chains}
            have = {(l[21] if l[21] != " " else "_") for l in lines if pdbgen.is_atom(l) and l[17:20] not in ignore}
            seen = {a.chain_id for cname, conf in o.mol.conformations.items() if cname != "AVR" for a in conf.atoms}
            if seen - sel:
                probs.append("selection: chains %r were read although only %r are selected" % (sorted(seen - sel), sorted(sel)))
            if (sel & have) - seen:
                probs.append("selection: selected chains %r have atoms in the text and were not read" % (sorted((sel & have) - seen),))
        ctx.case(key=(name, tuple(args), hash(text)), nontrivial=nsites >= 2)
        ctx.count("runs" + (" with -c" if chains else " with -i" if args else ""))
        if probs:
            census_bad.append((name, args, probs[:4], text))
        dropped = []
        sp = summary_problems(o, dropped)
        if sp:
            summary_bad.append((name, args, sp[:3], text))
        for lab, partner, typ in dropped:
            # the amino group and the side chain of one N-terminal residue form a "covalently coupled system" (empty SYBYL types)
            same_res = lab[3:] == partner[3:] and ("N+" in (lab[:3].strip(), partner[:3].strip()))
            drop_bad.append((name, args, lab, partner, same_res, text))
        # census model, trace-driven
        to = "-"
        if o.mol.options.titrate_only is not None:
            to = ",".join("%s|%d|%s" % (c.encode().hex(), n, i.encode().hex()) for c, n, i in o.mol.options.titrate_only) or "empty"
        for cname, conf in o.mol.conformations.items():
            if cname == "AVR":
                continue
            heavy = [a for a in conf.atoms if a.element != "H"]
            prot = {id(g.atom): g for g in conf.groups}
            infos, want = [], []
            for a in heavy:
                infos.append("|".join([a.type.encode().hex(), a.name.encode().hex(), a.res_name.encode().hex(), a.chain_id.encode().hex(), str(a.res_num),
                                       a.icode.encode().hex(), (a.terminal or "").encode().hex(), str(a.count_bonded_elements("O")), "1" if a.cysteine_bridge else "0"]))
                g = prot.get(id(a))
                if g is None or type(g).__name__ not in PROTEIN_CLASSES:
                    want.append("-" if g is None else None)      # None: ligand class, not modelled
                else:
                    m = "None" if not g.model_pka_set else str(round(g.model_pka * 1000000))
                    want.append("%s|%s|%s|%d|%s|%d|%d" % (type(g).__name__, g.type.encode().hex(), g.residue_type.encode().hex(), round(g.charge * 1000000), m,
                                                        1 if g.titratable else 0, 1 if g.use_in_calculations() else 0))
            if infos:
                creqs.append("groups census %s %s" % (to, ";".join(infos)))
                creals.append((name, cname, want))
    ctx.sample(dict(input=inputs[-1][0], args=inputs[-1][2], first_lines=pdbgen.lines_of(inputs[-1][1])[:2]))
    for name, args, d, text in tag_bad[:3]:
        kinds = {l[:3] for l in pdbgen.lines_of(text) if l.strip() == "TER" or (l.startswith("TER") and len(l.rstrip("\n")) < 6)}
        sig = "D13:short-TER-record-ignored" if kinds else "D4:nterm-keyed-by-number-only"
        ctx.violate(sig, "%s %r: terminal tags differ from the chain-start rule at %r" % (name, args, d), dict(pdb=text, args=args, differences=d))
    ctx.oblige("spec: N+/C- tags of the real parser = residue-level chain-start rule (%d inputs)" % len(inputs), not tag_bad,
               "%d inputs, first %r" % (len(tag_bad), [(t[0], t[2]) for t in tag_bad[:1]]))
    for name, args, probs, text in census_bad[:3]:
        ctx.violate("census:" + probs[0].split(":")[1].strip()[:30], "%s %r: %s" % (name, args, "; ".join(probs)), dict(pdb=text, args=args, problems=probs))
    ctx.oblige("spec: every site exactly once with its model pKa, nothing else, bridged CYS 99.99, ligand/ion tables (real runs)", not census_bad,
               "%d inputs, first %r" % (len(census_bad), [(c[0], c[2][:2]) for c in census_bad[:1]]))
    for name, args, probs, text in summary_bad[:2]:
        ctx.violate("summary:" + name, "%s %r: %s" % (name, args, "; ".join(probs)), dict(pdb=text, args=args, problems=probs))
    ctx.oblige("spec: the .pka summary lists every reported group exactly once with pKa and model pKa", not summary_bad, str([(s[0], s[2][:1]) for s in summary_bad[:2]]))
    unlisted = []
    for b in drop_bad:
        sig = "D20:nterm-side-chain-coupled-to-its-amino-group" if b[4] else "summary-drop:" + b[2].strip()
        if sig not in ctx.known:
            unlisted.append(b)
        ctx.violate(sig, "%s %r: protein site %s is in the results but missing from the summary and the determinant table (penalised in favour of %s)" % (b[0], b[1], b[2], b[3]),
                    dict(pdb=b[5], args=b[1], missing=b[2], coupled_to=b[3]))
    ctx.coverage["known_finding_instances"] = len(drop_bad) - len(unlisted)
    ctx.oblige("spec: every protein site of the results has its row in the summary (apart from listed known findings)", not unlisted, str([(b[0], b[2], b[3]) for b in unlisted[:2]]))
    coupling_family(ctx)
    if ctx.driver_ok:
        outs = common.driver_batch(reqs)
        dis = [(inputs[k][0], r[:80], m[:80]) for k, (r, m) in enumerate(zip(reals, outs)) if r != m and not (r.startswith("err") and m.startswith("err"))]
        ctx.oblige("correspondence: Lean parser model = get_atom_lines_from_pdb on %d inputs" % len(reqs), not dis, "%d disagreements, first %r" % (len(dis), dis[:1]))
        couts = common.driver_batch(creqs) if creqs else []
        cdis = []
        natoms = 0
        for (name, cname, want), o in zip(creals, couts):
            got = o.split(";")
            for k, (w, g) in enumerate(zip(want, got)):
                natoms += 1
                if w is not None and w != g:
                    cdis.append((name, cname, k, w, g))
                    break
        ctx.coverage["census_atoms_compared"] = natoms
        ctx.oblige("correspondence: Lean census model (class, type, residue type, charge, model pKa, titratable, reported) = real groups on %d atoms" % natoms,
                   not cdis, "%d disagreements, first %r" % (len(cdis), cdis[:1]))
    else:
        ctx.oblige("correspondence: parser and census models = real code", False, "driver not built")


def coupling_family(ctx):
    """coupling_effects driven on stub systems against the Lean model (which groups are penalised)"""
    import types
    from propka.conformation_container import ConformationContainer
    from propka.group import Group
    from propka.atom import Atom
    rnd = ctx.rng
    reqs, reals = [], []
    for _ in range(150 if ctx.quick() else 3000):
        n = rnd.randint(2, 4)
        gs = []
        for k in range(n):
            a = Atom()
            a.type, a.res_name, a.res_num, a.chain_id = 'atom', rnd.choice(["ASP", "LYS", "HIS", "N+ ", "CYS"]), rnd.randint(1, 3) if rnd.random() < 0.3 else k + 10, 'A'
            g = Group(a)
            g.charge = rnd.choice([1.0, -1.0])
            g.pka_value = rnd.choice([rnd.uniform(0, 14), 7.0, 3.8])
            g.titratable = True
            gs.append(g)
        for k in range(1, n):
            gs[k].couple_covalently(gs[rnd.randrange(k)])
        cc = ConformationContainer(name='x', parameters=types.SimpleNamespace(shared_determinants=0, remove_penalised_group=1), molecular_container=None)
        cc.groups = gs
        systems = list(cc.get_coupled_systems(cc.get_covalently_coupled_groups(), Group.get_covalently_coupled_groups))
        pen = cc.coupling_effects()
        ctx.case(key=("coupling", tuple((g.label, g.charge, g.pka_value) for g in gs)))
        if len(systems) != 1:
            continue
        reqs.append("coupling pen " + ";".join("%s|%d|%d" % (g.label.encode("latin1").hex(), common.bits(g.charge), common.bits(g.pka_value)) for g in systems[0]))
        reals.append(",".join(l.encode("latin1").hex() for l in pen) or "-")
    if ctx.driver_ok:
        outs = common.driver_batch(reqs)
        dis = [(q[:80], r, m) for q, r, m in zip(reqs, reals, outs) if r != m]
        ctx.oblige("correspondence: Lean coupling model = ConformationContainer.coupling_effects (penalised labels; %d stub systems)" % len(reqs), not dis, str(dis[:1]))
    else:
        ctx.oblige("correspondence: coupling model = real code", False, "driver not built")


PROTEIN_CLASSES = {"NtermGroup", "CtermGroup", "BBNGroup", "BBCGroup", "IonGroup", "COOGroup", "HISGroup", "CYSGroup", "TYRGroup", "LYSGroup",
                   "ARGGroup", "ROHGroup", "AMDGroup", "TRPGroup", "SERGroup"}


def run(ctx):
    from .. import scoring_common
    with scoring_common.tie(ctx, "C01's structures"):
        _run(ctx)


def replay(ctx, rep):
    r = rep["replay"]
    if "pdb" in r:
        from propka.parameters import Parameters
        from propka.input import read_parameter_file
        ignore = read_parameter_file("propka.cfg", Parameters()).ignore_residues
        args = r.get("args", [])
        chains = [args[1]] if args[:1] == ["-c"] else None
        lines = pdbgen.lines_of(r["pdb"])
        st, rt = spec_tags(lines, ignore, chains), real_tags(r["pdb"], ignore, chains)
        print("spec tags:", sorted(st.items())[:10]); print("real tags:", sorted((rt or {}).items())[:10])
        o = observe.run(r["pdb"], args)
        probs = [] if o.error else census_problems(o)[0] + summary_problems(o)
        print("problems:", probs[:5])
        return 0 if st == rt and not probs else 1
    print(rep)
    return 0
