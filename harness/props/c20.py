"""C20 - rotation about an axis: real `rotate_vector_around_an_axis` vs the Float instance of the Lean
model (bitwise / 1e-12) and vs the closed-form Rodrigues rotation (the spec the theorem proves)."""
import itertools
import math

from .. import common

SPEC = dict(
    claim='rotateAround = Rodrigues rotation about axis/|axis| for every angle, non-zero axis and vector is a Lean/Mathlib theorem over the reals (five cases incl. all zero-component families), with length, axial component and perpendicular-turn corollaries. The same definition runs at Float in the driver and is compared bit-for-bit with the real function on the 26 zero-component families and random triples; the real function is also compared with the closed form. The model\'s zero tests are numeric like Python\'s (nz x = x + 0 turns -0.0 into 0.0; nz_real: the identity on the reals) - the bit-wise equality of Float had sent an axis component -0.0 down the non-zero branch; axes with negative zeros are among the families.',
    note='Trusted: Lean kernel + standard axioms, harness; IEEE rounding not modelled (theorem over R; Float model compared, bit-identical in practice); libm shared between CPython and Lean runtime.',
    technique='Lean 4/Mathlib proof over the reals + bitwise Float correspondence',
    lean=["Propka.Props.C20"],
    rule="(theta, axis, v) triples: every sign pattern of axis components in {-,0,+}^3 minus zero (26 families) x "
         "magnitudes {1, 0.001, 1e3, random} x angles (random, multiples of pi/6, tiny) x random vectors; "
         "a case is non-trivial when the triple is distinct",
    assumptions=["IEEE rounding is not modelled: the theorem is over the reals; Float model compared to 1e-12 relative",
                 "libm sin/cos/asin/acos/sqrt are shared by CPython and the Lean runtime"],
)


def rodrigues(theta, a, v):
    n = math.sqrt(sum(c * c for c in a))
    k = [c / n for c in a]
    d = sum(x * y for x, y in zip(k, v))
    kxv = [k[1] * v[2] - k[2] * v[1], k[2] * v[0] - k[0] * v[2], k[0] * v[1] - k[1] * v[0]]
    c, s = math.cos(theta), math.sin(theta)
    return [v[i] * c + kxv[i] * s + k[i] * d * (1 - c) for i in range(3)]


def real_rot(theta, a, v):
    from propka.vector_algebra import Vector, rotate_vector_around_an_axis
    r = rotate_vector_around_an_axis(theta, Vector(*a), Vector(*v))
    return [r.x, r.y, r.z]


def gen(ctx):
    rnd = ctx.rng
    out = []
    mags = [1.0, 0.001, 1000.0]
    for signs in itertools.product((-1, 0, 1), repeat=3):
        if signs == (0, 0, 0):
            continue
        for rep in range(4 if ctx.quick() else 40):
            a = tuple(s * (rnd.choice(mags) if rep < 2 else rnd.uniform(1e-3, 10)) for s in signs)
            for theta in [rnd.uniform(-7, 7), rnd.choice(range(-12, 13)) * math.pi / 6, rnd.uniform(-1e-6, 1e-6)]:
                v = tuple(rnd.choice([rnd.uniform(-10, 10), 0.0, 1.0]) for _ in range(3))
                out.append((theta, a, v, "family%s" % (signs,)))
    # zero components written as -0.0 (a cross product of vectors in a coordinate plane gives them): `x != 0` is False for them too
    for signs in itertools.product((-1, 0, 1), repeat=3):
        if signs == (0, 0, 0) or 0 not in signs:
            continue
        for rep in range(2 if ctx.quick() else 20):
            a = tuple((-0.0 if s == 0 else s * rnd.uniform(1e-3, 10)) for s in signs)
            v = tuple(rnd.uniform(-10, 10) for _ in range(3))
            out.append((rnd.uniform(-7, 7), a, v, "family%s" % (signs,)))
    # every non-zero axis, whatever its length: components far below and far above 1 (nothing in the function may compare a
    # component with an absolute threshold), and axes whose components differ by many orders of magnitude
    for scale in (1e-9, 1e-7, 1e-5, 1e5, 1e9):
        for rep in range(12 if ctx.quick() else 200):
            signs = rnd.choice([s for s in itertools.product((-1, 0, 1), repeat=3) if s != (0, 0, 0)])
            a = tuple(s * scale * rnd.uniform(0.5, 9.5) for s in signs)
            v = tuple(rnd.uniform(-10, 10) for _ in range(3))
            out.append((rnd.uniform(-7, 7), a, v, "scaled%g" % scale))
    for rep in range(20 if ctx.quick() else 300):
        a = [rnd.uniform(-5, 5) for _ in range(3)]
        a[rnd.randrange(3)] *= rnd.choice([1e-7, 1e-9, 1e-4])
        out.append((rnd.uniform(-7, 7), tuple(a), tuple(rnd.uniform(-10, 10) for _ in range(3)), "mixed-magnitudes"))
    for _ in range(2000 if ctx.quick() else 100000):
        out.append((rnd.uniform(-10, 10), tuple(rnd.uniform(-5, 5) for _ in range(3)),
                    tuple(rnd.uniform(-20, 20) for _ in range(3)), "generic"))
    return out


def run(ctx):
    cases = gen(ctx)
    tol = 1e-9
    spec_bad, reals = [], []
    for theta, a, v, fam in cases:
        r = real_rot(theta, a, v)
        reals.append(r)
        e = rodrigues(theta, a, v)
        scale = 1 + max(abs(x) for x in v)
        ctx.case((theta, a, v))
        ctx.count(fam if fam in ("generic", "mixed-magnitudes") or fam.startswith("scaled") else "zero-component families")
        # the code finds its alignment angles with asin / acos of a ratio that tends to +-1 when one component of the axis is tiny
        # next to the others: there the inverse functions lose half of the digits (error ~ sqrt(eps) ~ 1.5e-8), which no
        # implementation of this algorithm in doubles can avoid - the family is compared at 1e-6, the others at 1e-9
        t = 1e-6 if fam == "mixed-magnitudes" else tol
        if any(abs(x - y) > t * scale for x, y in zip(r, e)):
            spec_bad.append((theta, a, v, r, e, fam))
    for c in cases[:3]:
        ctx.sample(dict(theta=c[0], axis=c[1], vec=c[2], real=real_rot(*c[:3]), rodrigues=rodrigues(*c[:3])))
    for theta, a, v, r, e, fam in spec_bad[:3]:
        negz = a[0] == 0 and a[1] == 0 and a[2] < 0
        ctx.violate("D1:axis-along-minus-z" if negz else "rot:%s" % fam,
                    "rotate_vector_around_an_axis(%r, %r, %r) = %r, Rodrigues gives %r" % (theta, a, v, r, e),
                    dict(call="propka.vector_algebra.rotate_vector_around_an_axis", theta=theta, axis=a, vec=v, got=r, expected=e))
    ctx.oblige("spec: real rotation = Rodrigues closed form on %d triples (26 zero-component families + generic)" % len(cases),
               not spec_bad, "%d differ, first %r" % (len(spec_bad), spec_bad[:1]))
    if ctx.driver_ok:
        reqs = ["rot " + " ".join(str(common.bits(x)) for x in (theta,) + tuple(a) + tuple(v)) for theta, a, v, _ in cases]
        outs = common.driver_batch(reqs)
        dis, exact = [], 0
        for (theta, a, v, fam), r, o in zip(cases, reals, outs):
            m = [common.unbits(int(t)) for t in o.split()] if o != "bad-op" else None
            if m is None:
                dis.append((theta, a, v, r, o))
                continue
            if all(common.bits(x) == common.bits(y) or x == y for x, y in zip(r, m)):
                exact += 1
            scale = 1 + max(abs(x) for x in v)
            if any(abs(x - y) > 1e-12 * scale for x, y in zip(r, m)):
                dis.append((theta, a, v, r, m))
        ctx.coverage["bit_identical"] = exact
        ctx.oblige("correspondence: Float instance of the Lean model = real function on %d triples (%d bit-identical)" % (len(cases), exact),
                   not dis, "%d disagreements, first %r" % (len(dis), dis[:1]))
    else:
        ctx.oblige("correspondence: Float model = real function", False, "driver not built")


def replay(ctx, rep):
    r = rep["replay"]
    got = real_rot(r["theta"], r["axis"], r["vec"])
    exp = rodrigues(r["theta"], r["axis"], r["vec"])
    print("real:", got, "rodrigues:", exp)
    return 0 if all(abs(x - y) < 1e-9 * (1 + max(map(abs, r["vec"]))) for x, y in zip(got, exp)) else 1
