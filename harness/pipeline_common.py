"""Correspondence for the set-up pipeline (`Model/Pipeline.lean`): the atoms a conformation holds after
`top_up_conformations` (recorded when `read_molecule_file` calls `protein_precheck`) go to the compiled Lean model, which
bonds them, types the hetero atoms, protonates, extracts and sets up the groups, sorts the atoms and couples the groups; what
comes back is compared with the state the real conformation holds when `calculate_pka` starts (atom order, names, group types,
bond lists, coordinates and SYBYL types of every atom incl. the hydrogens built; class, type, label, charge, model pKa, flags,
centre, interaction atoms and coupling list of every group) and - composed with the scoring model - with what `calculate_pka`
leaves on the groups."""
from . import common
from .scoring_common import hx, nats, OutOfModel, export, compare, parse_model

_SHIPPED = None


def prep_fingerprint(P):
    """the fields of a Parameters object the set-up pipeline reads"""
    return (P.ligand_typing, int(P.coupling_max_number_of_bonds), tuple(sorted(P.protein_group_mapping.items())), tuple(sorted(P.charge.items())),
            tuple(sorted(P.ions.items())), tuple(sorted(P.model_pkas.items())), tuple(sorted(P.custom_model_pkas.items())),
            bool(P.common_charge_centre), P.version)


def shipped_fingerprint():
    global _SHIPPED
    if _SHIPPED is None:
        import propka.parameters as PM
        from propka.input import read_parameter_file
        _SHIPPED = prep_fingerprint(read_parameter_file("propka.cfg", PM.Parameters()))
    return _SHIPPED


def pre_request(conf):
    """the atoms of a conformation before bonding, as the model's request"""
    out = []
    for a in conf.atoms:
        if a.bonded_atoms or a.group is not None or a.sybyl_assigned or a.is_protonated:
            raise OutOfModel("an atom already carries bonds or set-up state before setup_bonding_and_protonation")
        if a.type not in ("atom", "hetatm"):
            raise OutOfModel("atom type %r" % (a.type,))
        # add_atom (parsed atoms) records the chain identifier in conformation.chains, copy_atom (topping-up) does not; the copies
        # follow the conformation's own atoms, so "its chain is recorded" marks the atoms that count for the order of the chains
        out.append("|".join(["1" if a.type == "hetatm" else "0", hx(a.name), hx(a.element), hx(a.res_name), hx(a.chain_id), str(int(a.res_num)),
                             hx(a.icode), hx(a.terminal or ""), str(common.bits(a.x)), str(common.bits(a.y)), str(common.bits(a.z)),
                             "1" if a.chain_id in conf.chains else "0"]))
    return ";".join(out) or "-"


def export_ext(conf, base=None):
    """`scoring_common.export` with the SYBYL type of every atom and the class / exclude flag of every group appended"""
    a, g = base if base is not None else export(conf)
    al = a.split(";") if a != "-" else []
    gl = g.split(";") if g != "-" else []
    al = [x + "|" + hx(at.sybyl_type or "") for x, at in zip(al, conf.atoms)]
    gl = [x + "|" + type(gr).__name__ + "|" + ("1" if gr.exclude_cys_from_results else "0") for x, gr in zip(gl, conf.groups)]
    return (";".join(al) or "-", (";".join(gl) or "-") + "~" + ",".join(hx(c) for c in conf.chains))


def to_arg(options):
    t = getattr(options, "titrate_only", None)
    if t is None:
        return "-"
    if not t:
        return "empty"
    return ",".join("%s|%d|%s" % (hx(c), int(n), hx(i)) for (c, n, i) in t)


AF = ["element", "name", "group_type", "bonded_atoms", "x", "y", "z", "res_num", "chain_id", "sybyl_type"]
GF = ["type", "residue_type", "label", "protein atom", "res_num", "charge", "model_pka", "titratable", "cysteine_bridge", "atom", "interaction_atoms_for_acids",
      "interaction_atoms_for_bases", "covalently_coupled_groups", "x", "y", "z", "class", "exclude_cys_from_results"]


def diff_lists(kind, fields, real, model, names):
    if len(real) != len(model):
        return ["%s count %d, model %d" % (kind, len(real), len(model))]
    out = []
    for i, (r, m) in enumerate(zip(real, model)):
        if r != m:
            rf, mf = r.split("|"), m.split("|")
            bad = [fields[k] if k < len(fields) else str(k) for k in range(max(len(rf), len(mf))) if (rf[k:k + 1] != mf[k:k + 1])]
            out.append("%s %d (%s): %s differ (real %s, model %s)" % (kind, i, names(i), ", ".join(bad), "|".join(rf[k] for k in range(len(rf)) if rf[k:k + 1] != mf[k:k + 1])[:80],
                                                                    "|".join(mf[k] for k in range(len(mf)) if rf[k:k + 1] != mf[k:k + 1])[:80]))
            if len(out) >= 4:
                break
    return out


def unhex(s):
    try:
        return bytes.fromhex(s).decode("latin-1")
    except ValueError:
        return s


def check_pipes(pipes, tol=1e-9):
    """pipes: [(conf name, pre request, rp, pa, to, (atoms, groups) real export, real records, score_ok)];
    returns (n compared, n with scoring compared, [(conf, diffs)])"""
    if not pipes:
        return 0, 0, []
    outs = common.driver_batch(["pipe score %s %s %s %s" % (p[2], p[3], p[4], p[1]) for p in pipes])
    bad, nscore = [], 0
    for p, resp in zip(pipes, outs):
        name, real_a, real_g = p[0], p[5][0], p[5][1]
        if resp in ("bad-op", "valueerror", "bad-params"):
            bad.append((name, ["the model answered %s" % resp]))
            continue
        parts = resp.split("#")
        if len(parts) != 3:
            bad.append((name, ["malformed response"]))
            continue
        ra = real_a.split(";") if real_a != "-" else []
        ma = parts[0].split(";") if parts[0] != "-" else []
        real_g, real_ch = real_g.rsplit("~", 1)
        model_g, model_ch = parts[1].rsplit("~", 1) if "~" in parts[1] else (parts[1], "")
        rg = real_g.split(";") if real_g != "-" else []
        mg = model_g.split(";") if model_g != "-" else []
        d = diff_lists("atom", AF, ra, ma, lambda i: unhex(ra[i].split("|")[1]) + " " + ra[i].split("|")[7] + unhex(ra[i].split("|")[8]))
        d += diff_lists("group", GF, rg, mg, lambda i: unhex(rg[i].split("|")[2]))
        if real_ch != model_ch:
            d.append("conformation.chains %r, model %r" % ([unhex(x) for x in real_ch.split(",")], [unhex(x) for x in model_ch.split(",")]))
        if not d and p[7]:
            nscore += 1
            d = ["scoring after the model's own set-up: " + x for x in compare(p[6], parse_model(parts[2]), tol)][:4]
        if d:
            bad.append((name, d))
    return len(pipes), nscore, bad


# --------------------------------------------------------------------------------------------
# the whole program on a PDB text (`Model/Program.lean`: parser, read_pdb, top-up, set-up pipeline, scoring)
# --------------------------------------------------------------------------------------------
def chains_of_optargs(optargs):
    """the chain selection as the command line spells it (every value of -c / --chain, in order; a blank is the chain without
    identifier) - read off the raw arguments, so that the option parser itself is on the program's side of the comparison"""
    out, it = [], iter(list(optargs))
    for a in it:
        if a in ("-c", "--chain"):
            v = next(it, None)
            if v is not None:
                out.append(v)
        elif a.startswith("--chain="):
            out.append(a[len("--chain="):])
        elif a.startswith("-c") and len(a) > 2 and not a.startswith("--"):
            out.append(a[2:])
    return out


def titrate_only_of_optargs(optargs):
    """the --titrate_only list as the command line spells it: `raw:<hex of the option's text>` (parsed by the model of
    parse_res_list), `-` without the option"""
    it = iter(list(optargs))
    val = None
    for a in it:
        if a in ("-i", "--titrate_only"):
            val = next(it, None)
        elif a.startswith("--titrate_only="):
            val = a[len("--titrate_only="):]
    return "-" if val is None else "raw:" + hx(val)


def program_request(text, options, rp="-", optargs=None):
    lines = text.split("\n")
    if lines and lines[-1] == "":
        lines.pop()
    # readlines() keeps the newline on every line but possibly the last; the model gets the lines with it (the parser slices by column)
    raw = [l + "\n" for l in lines]
    if not text.endswith("\n") and raw:
        raw[-1] = raw[-1][:-1]
    ch = chains_of_optargs(optargs) if optargs is not None else getattr(options, "chains", None)
    gw = ",".join(str(common.bits(float(x))) for x in tuple(getattr(options, "grid", (0.0, 14.0, 0.1))) + tuple(getattr(options, "window", (0.0, 14.0, 1.0))))
    return "pipe pdb %s %s %s %s %s default %s %s" % (
        rp, "1" if getattr(options, "protonate_all", False) else "0", titrate_only_of_optargs(optargs) if optargs is not None else to_arg(options),
        ("1" if getattr(options, "keep_protons", False) else "0") + ("d" if getattr(options, "display_coupled_residues", False) else ""),
        ",".join(hx(c) for c in ch) if ch else "-", gw, ",".join(hx(l) for l in raw) or "-")


def run_program(text, optargs):
    """the real program on a text under a recorder: (error name or None, options, [(conf name, export_ext, records)] in the order of
    conformation_names, rp) - None when the run is outside the model"""
    import io
    import propka.run
    from . import scoring_common as SC
    rec = SC.Recorder()
    mol, err = None, None
    with rec:
        try:
            mol = propka.run.single("prog.pdb", optargs=list(optargs), stream=io.StringIO(text), write_pka=False)
        except (ValueError, IndexError) as e:
            err = type(e).__name__
    if err is not None:
        from propka.lib import loadOptions
        return err, loadOptions(list(optargs) + ["prog.pdb"]), [], "-", None, None
    if rec.pipes_skipped or len(rec.pipes) != len(mol.conformation_names):
        return None
    if [p[0] for p in rec.pipes] != list(mol.conformation_names):
        return None
    if not all(p[7] for p in rec.pipes):
        return None
    avr = None
    if "AVR" in mol.conformations:
        avr = []
        for g in mol.conformations["AVR"].groups:
            d = lambda t: ",".join("%s:%d" % (hx(x.label), common.bits(float(x.value))) for x in g.determinants[t]) or "-"
            avr.append("|".join([hx(g.label), hx(g.type), str(common.bits(float(g.pka_value))), str(common.bits(float(g.num_volume))),
                                 str(common.bits(float(g.energy_volume))), str(common.bits(float(g.energy_local))), str(common.bits(float(g.buried))),
                                 d("sidechain"), d("backbone"), d("coulomb")]))
    txt = None
    if avr is not None:
        import propka.output as PO
        P = mol.version.parameters
        det = PO.get_determinant_section(mol, "AVR", P)
        head = "%s\n" % PO.get_determinants_header()
        if det.startswith(head):
            rows = det[len(head):]
            k = rows.find("Coupled residues (marked *) were detected.")
            if k >= 0:
                rows = rows[:k]
            summ = PO.get_summary_section(mol, "AVR", P)
            shead = "%s\n" % PO.get_summary_header()
            if summ.startswith(shead):
                txt = (rows, summ[len(shead):], PO.get_folding_profile_section(mol, conformation="AVR", reference="neutral", window=mol.options.window),
                       PO.get_charge_profile_section(mol, conformation="AVR"))
    return None, mol.options, [(p[0], p[5], p[6]) for p in rec.pipes], rec.pipes[0][2] if rec.pipes else "-", avr, txt


AVR_COMPARED = [0]
TXT_COMPARED = [0]


def table_diffs(real, model):
    """the rows of the determinant table: the same blocks in the same order, each with the same number of lines and the same first
    40 columns (label, pKa, buried, desolvation terms); the entries of a determinant column of a block as a multiset (the search for
    coupled groups re-orders a list when it swaps and swaps back)"""
    def blocks(t):
        out = []
        for b in t.split("\n\n"):
            ls = [l for l in b.split("\n") if l]
            if ls:
                out.append(ls)
        return out
    rb, mb = blocks(real), blocks(model)
    if len(rb) != len(mb):
        return "%d blocks, model %d" % (len(rb), len(mb))
    for x, y in zip(rb, mb):
        if len(x) != len(y):
            return "block %r has %d lines, model %d" % (x[0][:9], len(x), len(y))
        if [l[:49] for l in x] != [l[:49] for l in y]:
            k = next(i for i, (a, b) in enumerate(zip(x, y)) if a[:49] != b[:49])
            return "block %r line %d: %r, model %r" % (x[0][:9], k, x[k][:49], y[k][:49])
        for c in range(3):
            fa = sorted(l[49 + 18 * c: 67 + 18 * c] for l in x)
            fb = sorted(l[49 + 18 * c: 67 + 18 * c] for l in y)
            if fa != fb or any(len(l) != 49 + 54 for l in x + y):
                return "block %r column %d: %r, model %r" % (x[0][:9], c, fa[:3], fb[:3])
    return ""


def avr_diffs(real, model, tol=0.0):
    """the average conformation: groups in order with label and type; numbers bit for bit; the determinants of a kind in list
    order with label and value bit for bit (the model runs the search for coupled groups, which re-orders a list when it swaps
    and swaps back and re-sums the pKa in the new order, between scoring and averaging as the code does)"""
    if len(real) != len(model):
        return ["%d groups, model %d" % (len(real), len(model))]
    names = ["label", "type", "pka_value", "num_volume", "energy_volume", "energy_local", "buried", "sidechain", "backbone", "coulomb"]
    out = []
    for r, m in zip(real, model):
        if r != m:
            rf, mf = r.split("|"), m.split("|")
            bad = [names[k] for k in range(min(len(rf), len(mf))) if rf[k] != mf[k]]
            out.append("%s: %s differ (real %s, model %s)" % (unhex(rf[0]), ", ".join(bad), "|".join(rf[k] for k in range(len(rf)) if k < len(mf) and rf[k] != mf[k])[:90],
                                                             "|".join(mf[k] for k in range(len(mf)) if k < len(rf) and rf[k] != mf[k])[:90]))
            if len(out) >= 4:
                break
    return out


def check_program(cases, tol=1e-9):
    """cases: [(tag, text, optargs)]; returns (n compared, n conformations, n errors agreed, n outside, [(tag, diffs)])"""
    reqs, todo, outside = [], [], 0
    for tag, text, optargs in cases:
        if any(ord(c) > 255 for c in text):
            outside += 1
            continue
        r = run_program(text, optargs)
        if r is None:
            outside += 1
            continue
        err, options, confs, rp, avr, txt = r
        reqs.append(program_request(text, options, rp, optargs))
        todo.append((tag, err, confs, avr, txt))
    if not reqs:
        return 0, 0, 0, outside, []
    outs = common.driver_batch(reqs)
    bad, nconf, nerr = [], 0, 0
    AVF = ["label", "type", "pka_value", "num_volume", "energy_volume", "energy_local", "buried", "sidechain", "backbone", "coulomb"]
    for (tag, err, confs, avr, txt), resp in zip(todo, outs):
        if err is not None or resp.startswith("err:"):
            if resp != "err:%s" % err:
                bad.append((tag, ["the program raised %s, the model answered %s" % (err, resp[:60])]))
            else:
                nerr += 1
            continue
        if resp in ("bad-op", "bad-params"):
            bad.append((tag, ["the model answered " + resp]))
            continue
        parts = resp.split("&")
        mavr, mtxt = None, None
        if parts and parts[-1].startswith("TXT@"):
            mtxt = parts.pop()[4:]
        if parts and parts[-1].startswith("AVR@"):
            mavr = parts.pop()[4:]
        names = [x.split("@", 1)[0] for x in parts]
        if names != [c[0] for c in confs]:
            bad.append((tag, ["conformations %r, model %r" % ([c[0] for c in confs], names)]))
            continue
        for (name, ext, real), part in zip(confs, parts):
            body = part.split("@", 1)[1]
            nconf += 1
            if body == "valueerror":
                bad.append((tag, ["%s: the model's set-up raised" % name]))
                break
            f = body.split("#")
            ra = ext[0].split(";") if ext[0] != "-" else []
            ma = f[0].split(";") if f[0] != "-" else []
            real_g, real_ch = ext[1].rsplit("~", 1)
            model_g, model_ch = f[1].rsplit("~", 1) if "~" in f[1] else (f[1], "")
            rg = real_g.split(";") if real_g != "-" else []
            mg = model_g.split(";") if model_g != "-" else []
            d = diff_lists("atom", AF, ra, ma, lambda i: unhex(ra[i].split("|")[1]) + " " + ra[i].split("|")[7] + unhex(ra[i].split("|")[8]))
            d += diff_lists("group", GF, rg, mg, lambda i: unhex(rg[i].split("|")[2]))
            if real_ch != model_ch:
                d.append("conformation.chains %r, model %r" % ([unhex(x) for x in real_ch.split(",")], [unhex(x) for x in model_ch.split(",")]))
            if not d:
                d = compare(real, parse_model(f[2]), tol)[:4]
            if d:
                bad.append((tag, ["%s: %s" % (name, x) for x in d[:3]]))
                break
        else:
            # the average conformation: every reported group, its numbers as bit patterns, its determinants with labels in order
            if avr is not None and mavr is not None:
                AVR_COMPARED[0] += 1
                ma = mavr.split(";") if mavr not in ("-", "valueerror") else []
                d = avr_diffs(avr, ma)
                if d:
                    bad.append((tag, ["AVR: %s" % x for x in d[:3]]))
                    continue
            # the determinant table and the summary of the .pka file, character by character (stars blanked)
            if txt is not None and mtxt is not None and mtxt != "-#-":
                TXT_COMPARED[0] += 1
                md, ms, mf, mc = [unhex(x) for x in mtxt.split("#")]
                for what, real, model in (("folding-energy section", txt[2], mf), ("charge section", txt[3], mc)):
                    if real != model:
                        rl, ml = real.split("\n"), model.split("\n")
                        k = next((i for i, (a, b) in enumerate(zip(rl, ml)) if a != b), min(len(rl), len(ml)))
                        bad.append((tag, ["%s of the .pka file: %d lines, model %d; line %d %r, model %r" % (
                            what, len(rl), len(ml), k, rl[k] if k < len(rl) else None, ml[k] if k < len(ml) else None)]))
                        break
                else:
                    pass
                if bad and bad[-1][0] == tag:
                    continue
                if txt[1] != ms:
                    rl, ml = txt[1].split("\n"), ms.split("\n")
                    k = next((i for i, (a, b) in enumerate(zip(rl, ml)) if a != b), min(len(rl), len(ml)))
                    bad.append((tag, ["summary of the .pka file: %d lines, model %d; line %d %r, model %r" % (
                        len(rl), len(ml), k, rl[k] if k < len(rl) else None, ml[k] if k < len(ml) else None)]))
                    continue
                if txt[0] != md:
                    rl, ml = txt[0].split("\n"), md.split("\n")
                    k = next((i for i, (a, b) in enumerate(zip(rl, ml)) if a != b), min(len(rl), len(ml)))
                    bad.append((tag, ["determinant table of the .pka file: %d lines, model %d; line %d %r, model %r" % (
                        len(rl), len(ml), k, rl[k] if k < len(rl) else None, ml[k] if k < len(ml) else None)]))
    return len(reqs), nconf, nerr, outside, bad


MODELLED_OPTIONS = {"-g", "--grid", "-w", "--window", "-k", "--keep-protons", "--protonate-all", "-c", "--chain", "--titrate_only", "-i", "-d", "--display-coupled-residues", "-q", "--quiet"}


def in_model(optargs):
    """the options the program model knows (or that do not enter a conformation's records)"""
    skip = False
    for a in optargs:
        if skip:
            skip = False
            continue
        if a in ("-c", "--chain", "--titrate_only", "-i"):
            skip = True
            continue
        if a in ("-g", "--grid", "-w", "--window"):
            skip3 = 3
            continue
        if a.startswith("--titrate_only=") or a.startswith("--chain="):
            continue
        if a not in MODELLED_OPTIONS:
            return False
    return True


def program_tie(ctx, what, extra=()):
    """the program-level correspondence as an obligation of a check: a sample of the texts the check itself ran through the real
    program (observe.OFFERED) plus `extra`, each run again under a recorder and through `Program.run` of the compiled model"""
    import glob
    import os
    from . import observe
    seen, cases = set(), []
    for name, text, args in list(extra) + list(observe.OFFERED):
        key = (hash(text), tuple(args))
        if key in seen or not in_model(args) or len(text) > (160000 if ctx.quick() else 10 ** 7):
            continue
        seen.add(key)
        cases.append((name + " " + " ".join(args), text, list(args)))
    limit = 12 if ctx.quick() else 150
    nx = min(len(list(extra)), 6)
    first, rest = cases[:nx], cases[nx:]        # what the check asks for explicitly always takes part
    if len(rest) > limit:
        step = len(rest) / float(limit)
        rest = [rest[int(i * step)] for i in range(limit)]
    cases = first + rest
    # two shipped structures always take part (one with a ligand and alternate locations when the tier allows)
    base = ["1FTJ-Chain-A", "3SGB-subset"] if ctx.quick() else ["1FTJ-Chain-A", "3SGB-subset", "1HPX", "4DFR", "conf-alt-AB-mutant"]
    for b in base:
        f = "/repo/tests/pdb/%s.pdb" % b
        if os.path.exists(f):
            cases.append((b, open(f).read(), []))
    if not getattr(ctx, "driver_ok", True):
        ctx.oblige("correspondence: Lean program model = real program", False, "driver not built")
        return
    n, nconf, nerr, outside, bad = check_program(cases)
    ctx.count("program: PDB texts run through the real program and through Program.run", n)
    ctx.count("program: conformations compared (atoms, hydrogens, groups, records)", nconf)
    ctx.count("program: rejected inputs on which both agree (error class)", nerr)
    ctx.count("program: average conformations compared (every reported group: numbers bit for bit, determinants in list order)", AVR_COMPARED[0])
    ctx.count("program: .pka determinant tables and summaries compared (determinant table with its stars, summary, folding-energy section, charge section with the pI: character by character)", TXT_COMPARED[0])
    ctx.count("program: texts outside the model (other parameter files, non-latin-1 text)", outside)
    ctx.count("program: texts with options -k / --protonate-all / -c / --titrate_only",
              sum(1 for c in cases if any(a in ("-k", "--protonate-all", "-c", "--titrate_only") or a.startswith("--titrate_only") for a in c[2])))
    ctx.oblige("correspondence: the program as one Lean function (Program.run: parser, read_pdb, top-up, bonding, SYBYL typing, protonation, "
               "group extraction and set-up, sort_atoms, covalent coupling, scoring, the search for non-covalently coupled groups, average_of_conformations, profiles, pI and every section of the .pka file below its header) = the real program from the PDB text on %d texts of %s "
               "(%d conformations: every atom incl. built hydrogens bit for bit, every group, every determinant and pKa to 1e-9; the average conformation "
               "bit for bit; the determinant table (with the stars of coupled groups), the summary, the folding-energy section and the charge section of the .pka file character by character; %d rejected "
               "inputs with the same error class)" % (n, what, nconf, nerr),
               not bad, "; ".join("%s: %s" % (t[:60], "; ".join(d[:2])) for t, d in bad[:2])[:700])
    for t, d in bad[:1]:
        case = next(c for c in cases if c[0] == t)
        ctx.program_bad = dict(tag=t, diffs=d[:4], pdb=case[1] if len(case[1]) < 400000 else None, args=case[2])
