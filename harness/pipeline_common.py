"""Correspondence for the set-up pipeline (`Model/Pipeline.lean`): the atoms a conformation holds after
`top_up_conformations` (recorded when `read_molecule_file` calls `protein_precheck`) go to the compiled Lean model, which
bonds them, types the hetero atoms, protonates, extracts and sets up the groups, sorts the atoms and couples the groups; what
comes back is compared with the state the real conformation holds when `calculate_pka` starts (atom order, names, group types,
bond lists, coordinates and SYBYL types of every atom incl. the hydrogens built; class, type, label, charge, model pKa, flags,
centre, interaction atoms and coupling list of every group) and - composed with the scoring model - with what `calculate_pka`
leaves on the groups."""
from . import common
from .scoring_common import hx, nats, OutOfModel, export, compare, parse_model

_SHIPPED = None


def prep_fingerprint(P):
    """the fields of a Parameters object the set-up pipeline reads"""
    return (P.ligand_typing, int(P.coupling_max_number_of_bonds), tuple(sorted(P.protein_group_mapping.items())), tuple(sorted(P.charge.items())),
            tuple(sorted(P.ions.items())), tuple(sorted(P.model_pkas.items())), tuple(sorted(P.custom_model_pkas.items())),
            bool(P.common_charge_centre), P.version)


def shipped_fingerprint():
    global _SHIPPED
    if _SHIPPED is None:
        import propka.parameters as PM
        from propka.input import read_parameter_file
        _SHIPPED = prep_fingerprint(read_parameter_file("propka.cfg", PM.Parameters()))
    return _SHIPPED


def pre_request(conf):
    """the atoms of a conformation before bonding, as the model's request"""
    out = []
    for a in conf.atoms:
        if a.bonded_atoms or a.group is not None or a.sybyl_assigned or a.is_protonated:
            raise OutOfModel("an atom already carries bonds or set-up state before setup_bonding_and_protonation")
        if a.type not in ("atom", "hetatm"):
            raise OutOfModel("atom type %r" % (a.type,))
        out.append("|".join(["1" if a.type == "hetatm" else "0", hx(a.name), hx(a.element), hx(a.res_name), hx(a.chain_id), str(int(a.res_num)),
                             hx(a.icode), hx(a.terminal or ""), str(common.bits(a.x)), str(common.bits(a.y)), str(common.bits(a.z))]))
    return ";".join(out) or "-"


def export_ext(conf):
    """`scoring_common.export` with the SYBYL type of every atom and the class / exclude flag of every group appended"""
    a, g = export(conf)
    al = a.split(";") if a != "-" else []
    gl = g.split(";") if g != "-" else []
    al = [x + "|" + hx(at.sybyl_type or "") for x, at in zip(al, conf.atoms)]
    gl = [x + "|" + type(gr).__name__ + "|" + ("1" if gr.exclude_cys_from_results else "0") for x, gr in zip(gl, conf.groups)]
    return (";".join(al) or "-", ";".join(gl) or "-")


def to_arg(options):
    t = getattr(options, "titrate_only", None)
    if t is None:
        return "-"
    if not t:
        return "empty"
    return ",".join("%s|%d|%s" % (hx(c), int(n), hx(i)) for (c, n, i) in t)


AF = ["element", "name", "group_type", "bonded_atoms", "x", "y", "z", "res_num", "chain_id", "sybyl_type"]
GF = ["type", "residue_type", "label", "protein atom", "res_num", "charge", "model_pka", "titratable", "cysteine_bridge", "atom", "interaction_atoms_for_acids",
      "interaction_atoms_for_bases", "covalently_coupled_groups", "x", "y", "z", "class", "exclude_cys_from_results"]


def diff_lists(kind, fields, real, model, names):
    if len(real) != len(model):
        return ["%s count %d, model %d" % (kind, len(real), len(model))]
    out = []
    for i, (r, m) in enumerate(zip(real, model)):
        if r != m:
            rf, mf = r.split("|"), m.split("|")
            bad = [fields[k] if k < len(fields) else str(k) for k in range(max(len(rf), len(mf))) if (rf[k:k + 1] != mf[k:k + 1])]
            out.append("%s %d (%s): %s differ (real %s, model %s)" % (kind, i, names(i), ", ".join(bad), "|".join(rf[k] for k in range(len(rf)) if rf[k:k + 1] != mf[k:k + 1])[:80],
                                                                    "|".join(mf[k] for k in range(len(mf)) if rf[k:k + 1] != mf[k:k + 1])[:80]))
            if len(out) >= 4:
                break
    return out


def unhex(s):
    try:
        return bytes.fromhex(s).decode("latin-1")
    except ValueError:
        return s


def check_pipes(pipes, tol=1e-9):
    """pipes: [(conf name, pre request, rp, pa, to, (atoms, groups) real export, real records, score_ok)];
    returns (n compared, n with scoring compared, [(conf, diffs)])"""
    if not pipes:
        return 0, 0, []
    outs = common.driver_batch(["pipe score %s %s %s %s" % (p[2], p[3], p[4], p[1]) for p in pipes])
    bad, nscore = [], 0
    for p, resp in zip(pipes, outs):
        name, real_a, real_g = p[0], p[5][0], p[5][1]
        if resp in ("bad-op", "valueerror", "bad-params"):
            bad.append((name, ["the model answered %s" % resp]))
            continue
        parts = resp.split("#")
        if len(parts) != 3:
            bad.append((name, ["malformed response"]))
            continue
        ra = real_a.split(";") if real_a != "-" else []
        ma = parts[0].split(";") if parts[0] != "-" else []
        rg = real_g.split(";") if real_g != "-" else []
        mg = parts[1].split(";") if parts[1] != "-" else []
        d = diff_lists("atom", AF, ra, ma, lambda i: unhex(ra[i].split("|")[1]) + " " + ra[i].split("|")[7] + unhex(ra[i].split("|")[8]))
        d += diff_lists("group", GF, rg, mg, lambda i: unhex(rg[i].split("|")[2]))
        if not d and p[7]:
            nscore += 1
            d = ["scoring after the model's own set-up: " + x for x in compare(p[6], parse_model(parts[2]), tol)][:4]
        if d:
            bad.append((name, d))
    return len(pipes), nscore, bad
