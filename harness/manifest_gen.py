"""Writes MANIFEST.json from the per-property SPEC/MANIFEST entries (kept in one place so that the
manifest is always valid and in step with the checks that exist)."""
import importlib
import json
from pathlib import Path

ROOT = Path(__file__).resolve().parent.parent
ALL = ["C%02d" % i for i in range(1, 21)]
BASELINE = "cd /repo && /venv/bin/python -m pytest -ra -q -p no:cacheprovider --timeout=900 --continue-on-collection-errors"


def main():
    checks, na = [], []
    for pid in ALL:
        try:
            mod = importlib.import_module("harness.props." + pid.lower())
        except ModuleNotFoundError:
            na.append(dict(property_id=pid, reason="check not built yet in this round (see DESIGN.md section 5 for the planned theorems); no claim is made"))
            continue
        m = mod.SPEC
        if m.get("not_applicable"):
            na.append(dict(property_id=pid, reason=m["not_applicable"]))
            continue
        checks.append(dict(
            property_id=pid,
            quick_cmd="./check %s --tier quick" % pid,
            thorough_cmd="./check %s --tier thorough" % pid,
            evidence_file="evidence/%s.json" % pid,
            replay_cmd_template="./check %s --replay {path}" % pid,
            engine="lean4-model+correspondence",
            level_claimed=dict(category="proof", text=m["claim"], design_ref="DESIGN.md section 5, " + pid),
            level_note=m["note"],
            technique=m.get("technique", "Lean 4 theorems about a model + differential correspondence with the code"),
        ))
    man = dict(
        version=1,
        setup_cmd="./setup.sh",
        hooks=dict(guard="PROPKA_VERIF", enable="export PROPKA_VERIF=1 (no source hooks are needed: everything is observed from outside)",
                   baseline_off_cmd=BASELINE, source_commits=[], add_only=True),
        engines=[
            dict(name="lean4-model+correspondence", path="lean/", serves_properties=[c["property_id"] for c in checks],
                 kind_free_text="Lean 4.33 library: import-free executable model (lean/Propka/Model), Mathlib-backed proofs "
                                "(lean/Propka/Proofs), property theorems (lean/Propka/Props), tables regenerated from /repo "
                                "(lean/Propka/Gen); compiled driver behind a line protocol; Python harness (harness/) runs the real "
                                "code in-process, compares with the model and evaluates each property's specification on the real code"),
        ],
        checks=checks,
        not_applicable=na,
        notes="Verdict = proofs build + axiom audit + correspondence + spec evaluation on the implementation; see DESIGN.md. "
              "Fixed defects and known findings: known_findings.json.",
    )
    (ROOT / "MANIFEST.json").write_text(json.dumps(man, indent=1) + "\n")
    print("checks:", len(checks), "not_applicable:", len(na))


if __name__ == "__main__":
    main()
