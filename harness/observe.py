"""Run the real PROPKA (the working tree of /repo, in-process) and collect an observation record."""
import io
import logging
import os
import tempfile
from pathlib import Path

import propka.run
import propka.output


class ListHandler(logging.Handler):
    def __init__(self):
        super().__init__(level=logging.WARNING)
        self.records = []

    def emit(self, record):
        try:
            self.records.append((record.name, record.levelname, record.getMessage()))
        except Exception:
            self.records.append((record.name, record.levelname, str(record.msg)))


def det_list(group, type_):
    return [(d.label, float(d.value)) for d in group.determinants[type_]]


def atom_key(atom):
    return (atom.chain_id, atom.res_num, atom.icode, atom.res_name, atom.name)


def group_record(g):
    a = g.atom
    return dict(
        label=g.label, type=g.type, residue_type=g.residue_type,
        pka=float(g.pka_value), model_pka=float(g.model_pka),
        e_vol=float(g.energy_volume), n_vol=float(g.num_volume),
        e_loc=float(g.energy_local), n_loc=float(g.num_local), buried=float(g.buried),
        charge=g.charge, titratable=bool(g.titratable), use=bool(g.use_in_calculations()),
        bridged=bool(a.cysteine_bridge),
        sidechain=det_list(g, 'sidechain'), backbone=det_list(g, 'backbone'), coulomb=det_list(g, 'coulomb'),
        coupled=[c.label for c in g.non_covalently_coupled_groups],
        cov_coupled=[c.label for c in g.covalently_coupled_groups],
        penalised=(g.coupled_titrating_group.label if g.coupled_titrating_group else None),
        key=atom_key(a), xyz=(a.x, a.y, a.z), centre=(g.x, g.y, g.z), atom_type=a.type,
        elem=a.element,
    )


class Obs:
    def __init__(self):
        self.mol = None
        self.error = None       # (exception class name, message) or None
        self.confs = {}         # conformation name -> list of group records (all groups)
        self.text = None        # .pka text, date line removed
        self.log = []

    def reported(self, conf='AVR'):
        return [g for g in self.confs.get(conf, []) if g['use']]


def pka_text(mol, reference="neutral"):
    with tempfile.TemporaryDirectory(prefix="pkv") as d:
        f = os.path.join(d, "out.pka")
        propka.output.write_pka(mol, mol.version.parameters, filename=f, conformation='AVR', reference=reference, verbose=False)
        txt = Path(f).read_text()
    lines = txt.split("\n")
    # the first line carries the date
    return "\n".join(lines[1:])


# every text the check ran the real program on (the program-level correspondence draws its sample from these)
OFFERED = []


def run(text, args=(), name="input.pdb", want_text=True, capture_log=False, stream=True):
    """one real PROPKA run on PDB text; never raises"""
    if stream and len(OFFERED) < 20000:
        OFFERED.append((name, text, tuple(args)))
    o = Obs()
    handler = None
    if capture_log:
        handler = ListHandler()
        logging.disable(logging.NOTSET)
        logging.getLogger("propka").addHandler(handler)
        logging.getLogger("propka").setLevel(logging.WARNING)
    try:
        if stream:
            mol = propka.run.single(name, tuple(args), stream=io.StringIO(text), write_pka=False)
        else:
            mol = propka.run.single(name, tuple(args), write_pka=False)
            mol.name = "input"
        o.mol = mol
        for cname, conf in mol.conformations.items():
            o.confs[cname] = [group_record(g) for g in conf.groups]
        if want_text:
            o.text = pka_text(mol)
    except BaseException as e:  # noqa: BLE001 - the error class is the observation
        if isinstance(e, (KeyboardInterrupt, SystemExit)) and not isinstance(e, SystemExit):
            raise
        o.error = (type(e).__name__, str(e)[:200])
    finally:
        if handler is not None:
            logging.getLogger("propka").removeHandler(handler)
            logging.disable(logging.CRITICAL)
            o.log = handler.records
    return o


def close(a, b, tol=1e-9):
    return abs(a - b) <= tol


def compare_groups(ra, rb, tol=1e-9, fields=("pka", "model_pka", "e_vol", "n_vol", "e_loc", "n_loc", "buried"),
                   dets=True, labels=True):
    """differences between two lists of group records matched by position; [] if none"""
    diffs = []
    if len(ra) != len(rb):
        return ["group count %d vs %d" % (len(ra), len(rb))]
    for x, y in zip(ra, rb):
        if labels and x["label"] != y["label"]:
            diffs.append("label %s vs %s" % (x["label"], y["label"]))
            continue
        for f in fields:
            if not close(x[f], y[f], tol):
                diffs.append("%s.%s %r vs %r" % (x["label"], f, x[f], y[f]))
        if dets:
            for t in ("sidechain", "backbone", "coulomb"):
                da = sorted(x[t]) if labels else sorted(v for _, v in x[t])
                db = sorted(y[t]) if labels else sorted(v for _, v in y[t])
                if len(da) != len(db):
                    diffs.append("%s.%s count %d vs %d" % (x["label"], t, len(da), len(db)))
                    continue
                for p, q in zip(da, db):
                    if labels:
                        if p[0] != q[0] or not close(p[1], q[1], tol):
                            diffs.append("%s.%s %r vs %r" % (x["label"], t, p, q))
                    elif not close(p, q, tol):
                        diffs.append("%s.%s %r vs %r" % (x["label"], t, p, q))
    return diffs
