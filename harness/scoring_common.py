"""Whole-pipeline correspondence for the scoring phase: the state a conformation holds when
`ConformationContainer.calculate_pka` starts is exported, the compiled Lean model `Scoring.score` (parameters
regenerated from /repo) computes every group's record from it, and the result is compared with what the real
`calculate_pka` left on the groups - counts and partners exactly, numbers by bit pattern (or to 1e-9 when asked)."""
from . import common


def hx(s):
    return s.encode("latin-1", "replace").hex() or ""


def nats(xs):
    return ",".join(str(x) for x in xs) if xs else "-"


class OutOfModel(Exception):
    pass


def export(conf):
    """the request line for one conformation (before calculate_pka), plus the group objects in order"""
    atoms = list(conf.atoms)
    idx = {id(a): i for i, a in enumerate(atoms)}
    gidx = {id(g): i for i, g in enumerate(conf.groups)}

    def ai(a):
        if id(a) not in idx:
            raise OutOfModel("an interaction or bonded atom is not in the conformation's atom list")
        return idx[id(a)]
    alines = []
    for a in atoms:
        alines.append("|".join([hx(a.element), hx(a.name), hx(a.group_type or ""), nats([ai(b) for b in a.bonded_atoms]),
                                str(common.bits(a.x)), str(common.bits(a.y)), str(common.bits(a.z)), str(int(a.res_num)), hx(a.chain_id)]))
    glines = []
    for g in conf.groups:
        for c in g.covalently_coupled_groups:
            if id(c) not in gidx:
                raise OutOfModel("a covalently coupled group is not in the conformation's group list")
        for a in list(g.interaction_atoms_for_acids) + list(g.interaction_atoms_for_bases):
            if a.element == 'H' and not a.bonded_atoms:
                raise OutOfModel("a hydrogen interaction atom without bonds")
        glines.append("|".join([hx(g.type), hx(g.residue_type), hx(g.label), "1" if g.atom.type == 'atom' else "0", str(int(g.atom.res_num)),
                                str(common.bits(float(g.charge))), str(common.bits(float(g.model_pka))), "1" if g.titratable else "0",
                                "1" if g.atom.cysteine_bridge else "0", str(ai(g.atom)),
                                nats([ai(a) for a in g.interaction_atoms_for_acids]), nats([ai(a) for a in g.interaction_atoms_for_bases]),
                                nats([gidx[id(c)] for c in g.covalently_coupled_groups]),
                                str(common.bits(g.x)), str(common.bits(g.y)), str(common.bits(g.z))]))
    return (";".join(alines) or "-", ";".join(glines) or "-")


def real_records(conf):
    """what calculate_pka left on the groups, partners as indices into conf.groups"""
    gidx = {id(g): i for i, g in enumerate(conf.groups)}
    out = []
    for g in conf.groups:
        def dets(t):
            res = []
            for d in g.determinants[t]:
                partner = d.group.group if type(d.group).__name__ == 'Iterative' else d.group
                res.append((gidx.get(id(partner), -1), float(d.value)))
            return res
        ctg = g.coupled_titrating_group
        out.append(dict(nv=int(g.num_volume), buried=float(g.buried), evol=float(g.energy_volume), eloc=float(g.energy_local),
                        sc=dets('sidechain'), bb=dets('backbone'), cb=dets('coulomb'), pka=float(g.pka_value),
                        ctg=(gidx.get(id(ctg), -1) if ctg is not None else None), label=g.label))
    return out


def parse_model(resp):
    if resp == "-":
        return []
    out = []
    for rec in resp.split(";"):
        f = rec.split("|")
        if len(f) != 9:
            raise common.Infra("scoring model: malformed record " + rec[:80])

        def dets(s):
            if s == "-":
                return []
            return [(int(x.split(":")[0]), common.unbits(int(x.split(":")[1]))) for x in s.split(",")]
        out.append(dict(nv=int(f[0]), buried=common.unbits(int(f[1])), evol=common.unbits(int(f[2])), eloc=common.unbits(int(f[3])),
                        sc=dets(f[4]), bb=dets(f[5]), cb=dets(f[6]), pka=common.unbits(int(f[7])), ctg=(None if f[8] == "-" else int(f[8]))))
    return out


def same(a, b, tol):
    if tol == 0:
        return common.bits(a) == common.bits(b) or a == b
    return abs(a - b) <= tol


def compare(real, model, tol=0.0):
    """differences between the real records and the model's; [] if none"""
    diffs = []
    if len(real) != len(model):
        return ["group count %d vs %d" % (len(real), len(model))]
    for i, (r, m) in enumerate(zip(real, model)):
        lab = r.get("label", str(i))
        if r["nv"] != m["nv"]:
            diffs.append("%s num_volume %d vs %d" % (lab, r["nv"], m["nv"]))
        for f in ("buried", "evol", "eloc", "pka"):
            if not same(r[f], m[f], tol):
                diffs.append("%s %s %r vs %r" % (lab, f, r[f], m[f]))
        for t in ("sc", "bb", "cb"):
            if [p for p, _ in r[t]] != [p for p, _ in m[t]]:
                diffs.append("%s %s partners %r vs %r" % (lab, t, [p for p, _ in r[t]], [p for p, _ in m[t]]))
            else:
                for (p, x), (_, y) in zip(r[t], m[t]):
                    if not same(x, y, tol):
                        diffs.append("%s %s[%d] %r vs %r" % (lab, t, p, x, y))
        if r["ctg"] != m["ctg"]:
            diffs.append("%s coupled_titrating_group %r vs %r" % (lab, r["ctg"], m["ctg"]))
    return diffs


class Recorder:
    """wraps ConformationContainer.calculate_pka for the duration of a `with` block: every call exports the state first
    and records the real result afterwards; `pairs` = [(conformation name, request parts or OutOfModel text, real records)]"""

    def __init__(self):
        self.pairs = []

    def __enter__(self):
        import propka.conformation_container as CC
        self.CC = CC
        self.orig = CC.ConformationContainer.calculate_pka
        rec = self

        def wrapped(conf, version, options):
            try:
                req = export(conf)
            except OutOfModel as e:
                req = str(e)
            shared = bool(getattr(conf.parameters, "shared_determinants", 0))
            rp = "1" if conf.parameters.remove_penalised_group else "0"
            rec.orig(conf, version, options)
            rec.pairs.append((conf.name, req, real_records(conf), rp, shared, type(version).__name__))
        CC.ConformationContainer.calculate_pka = wrapped
        return self

    def __exit__(self, *a):
        self.CC.ConformationContainer.calculate_pka = self.orig


def check_pairs(pairs, tol=0.0):
    """run the model on every recorded conformation; returns (n compared, n out-of-model, [(conf, diffs)])"""
    reqs, todo, skipped = [], [], 0
    for name, req, real, rp, shared, vname in pairs:
        if isinstance(req, str) or shared or vname != "VersionA":
            skipped += 1
            continue
        reqs.append("scoring run %s %s %s" % (rp, req[0], req[1]))
        todo.append((name, real))
    bad = []
    if reqs:
        outs = common.driver_batch(reqs)
        for (name, real), resp in zip(todo, outs):
            if resp == "bad-op":
                bad.append((name, ["the model rejected the request"]))
                continue
            d = compare(real, parse_model(resp), tol)
            if d:
                bad.append((name, d))
    return len(reqs), skipped, bad


def params_dump():
    """the same listing `scoring params` prints, computed from the current Parameters object and module constants"""
    import ast
    import inspect
    import textwrap
    import propka.parameters as PM
    import propka.energy as E
    import propka.determinants as D
    import propka.iterative as IT
    import propka.group as G
    from propka.input import read_parameter_file
    P = read_parameter_file("propka.cfg", PM.Parameters())
    b = lambda x: str(common.bits(float(x)))
    fl = lambda xs: ",".join(b(x) for x in xs)
    ep = [P.Nmin, P.Nmax, P.desolvationSurfaceScalingFactor, P.desolvationPrefactor, P.desolvationAllowance, P.coulomb_cutoff1, P.coulomb_cutoff2,
          E.UNK_DIELECTRIC1, E.UNK_DIELECTRIC2, E.UNK_PKA_SCALING1, E.UNK_BACKBONE_DISTANCE1, E.UNK_BACKBONE_DISTANCE2, E.UNK_PKA_SCALING2,
          E.UNK_FANGLE_MIN, E.MIN_DISTANCE_4TH]
    tree = ast.parse(textwrap.dedent(inspect.getsource(G.Group.calculate_total_pka)))
    fixed = [n.value.value for n in ast.walk(tree) if isinstance(n, ast.Assign) and isinstance(n.value, ast.Constant) and isinstance(n.value.value, float)]
    sc = P.sidechain_cutoffs
    cut = [P.desolv_cutoff_squared, P.buried_cutoff_squared, P.coulomb_cutoff2_squared, P.VanDerWaalsVolume['C4'], P.sidechain_interaction,
           sc.default[0], sc.default[1], E.COMBINED_NUM_BURIED_MAX, E.SEPARATE_NUM_BURIED_MAX, IT.UNK_MIN_VALUE, D.FANGLE_MIN, fixed[0] if fixed else float('nan')]
    s3 = lambda d: ";".join("%s:%s:%s:%s" % (hx(k), b(v[0]), b(v[1]), b(v[2])) for k, v in d.items())
    im = P.interaction_matrix
    return " ".join([
        "ep=" + fl(ep), "cut=" + fl(cut),
        "exc=" + fl([P.COO_HIS_exception, P.OCO_HIS_exception, P.CYS_HIS_exception, P.CYS_CYS_exception]),
        "vdw=" + ";".join("%s:%s" % (hx(k), b(v)) for k, v in P.VanDerWaalsVolume.items()),
        "sc=" + ";".join("%s:%s:%s:%s" % (hx(a), hx(c), b(sc.dictionary[a][c][0]), b(sc.dictionary[a][c][1])) for a in sc.dictionary for c in sc.dictionary[a]),
        "nh=" + s3(P.backbone_NH_hydrogen_bond), "co=" + s3(P.backbone_CO_hydrogen_bond),
        "im=" + ";".join("%s:%s:%d" % (hx(a), hx(c), ord(str(im.dictionary[a][c])) if len(str(im.dictionary[a][c])) == 1 else ord('?')) for a in im.dictionary for c in im.dictionary[a]),
        "lists=" + "|".join(",".join(hx(x) for x in l) for l in (P.angular_dependent_sidechain_interactions, P.base_list, P.exclude_sidechain_interactions,
                                                                    P.backbone_reorganisation_list, list(P.ions.keys()))),
        "minBond=%d" % int(P.min_bond_distance_for_hydrogen_bonds), "rp=%s" % ("true" if P.remove_penalised_group else "false"),
        "shared=%s" % ("true" if P.shared_determinants else "false")])


class tie:
    """`with tie(ctx, what):` - every calculate_pka call of the real code made inside the block is recorded; on exit the
    compiled Lean scoring model is run on (a bounded, de-duplicated sample of) the recorded conformations and the
    agreement becomes an obligation of the check.  Discrete results (counts, determinant partners and order, coupled
    titrating groups) are compared exactly, numbers to 1e-9; the evidence also says how many conformations were
    bit-identical."""

    def __init__(self, ctx, what, limit=None):
        self.ctx, self.what = ctx, what
        self.limit = limit if limit is not None else (160 if ctx.quick() else 1500)
        self.rec = Recorder()

    def __enter__(self):
        self.rec.__enter__()
        return self

    def __exit__(self, et, ev, tb):
        self.rec.__exit__(et, ev, tb)
        if et is not None and not issubclass(et, Exception):
            return False
        ctx = self.ctx
        seen, sample = set(), []
        for p in self.rec.pairs:
            key = hash(p[1]) if not isinstance(p[1], str) else ("oom", p[1])
            if key in seen:
                continue
            seen.add(key)
            sample.append(p)
        # the largest conformations are the slowest and the least varied: keep a spread
        if len(sample) > self.limit:
            step = len(sample) / float(self.limit)
            sample = [sample[int(i * step)] for i in range(self.limit)]
        if not getattr(ctx, "driver_ok", True):
            ctx.oblige("correspondence: Lean scoring model = real calculate_pka", False, "driver not built")
            return False
        # read-back of the translator: what the compiled model holds is what the current Parameters object holds
        got = common.driver_batch(["scoring params"])[0]
        want = params_dump()
        if got != want:
            gd, wd = dict(x.split("=", 1) for x in got.split(" ")), dict(x.split("=", 1) for x in want.split(" "))
            diff = [k for k in wd if gd.get(k) != wd[k]]
        else:
            diff = []
        ctx.oblige("translator read-back: the scoring parameters compiled into the Lean driver = the current Parameters object and module constants (bit patterns)",
                   not diff, "fields that differ: %r" % (diff,))
        n, skipped, bad = check_pairs(sample, tol=1e-9)
        exact = 0
        if n and not bad:
            _, _, inexact = check_pairs(sample, tol=0.0)
            exact = n - len(inexact)
        ctx.count("scoring: conformations recorded", len(self.rec.pairs))
        ctx.count("scoring: distinct conformations compared with the Lean model", n)
        ctx.count("scoring: bit-identical", exact)
        ctx.count("scoring: outside the model (shared_determinants, other versions, unexportable state)", skipped)
        ngroups = sum(len(p[2]) for p in sample)
        ndets = sum(len(r["sc"]) + len(r["bb"]) + len(r["cb"]) for p in sample for r in p[2])
        ctx.count("scoring: groups compared", ngroups)
        ctx.count("scoring: determinants compared", ndets)
        ctx.oblige("correspondence: Lean scoring model (the whole of calculate_pka: desolvation, backbone, ion, reorganisation, pair loop, "
                   "iterative scheme, totals, coupling penalties) = real calculate_pka on %d distinct conformations of %s (%d groups, %d "
                   "determinants; counts/partners/order exact, numbers 1e-9)" % (n, self.what, ngroups, ndets),
                   not bad, "; ".join("%s: %s" % (c, "; ".join(d[:3])) for c, d in bad[:2])[:600])
        self.bad = bad
        return False
