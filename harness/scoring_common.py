"""Whole-pipeline correspondence for the scoring phase: the state a conformation holds when
`ConformationContainer.calculate_pka` starts is exported, the compiled Lean model `Scoring.score` (parameters
regenerated from /repo) computes every group's record from it, and the result is compared with what the real
`calculate_pka` left on the groups - counts and partners exactly, numbers by bit pattern (or to 1e-9 when asked)."""
from . import common


def hx(s):
    return s.encode("latin-1", "replace").hex() or ""


def nats(xs):
    return ",".join(str(x) for x in xs) if xs else "-"


class OutOfModel(Exception):
    pass


def export(conf):
    """the request line for one conformation (before calculate_pka), plus the group objects in order"""
    atoms = list(conf.atoms)
    idx = {id(a): i for i, a in enumerate(atoms)}
    gidx = {id(g): i for i, g in enumerate(conf.groups)}

    def ai(a):
        if id(a) not in idx:
            raise OutOfModel("an interaction or bonded atom is not in the conformation's atom list")
        return idx[id(a)]
    alines = []
    for a in atoms:
        alines.append("|".join([hx(a.element), hx(a.name), hx(a.group_type or ""), nats([ai(b) for b in a.bonded_atoms]),
                                str(common.bits(a.x)), str(common.bits(a.y)), str(common.bits(a.z)), str(int(a.res_num)), hx(a.chain_id)]))
    glines = []
    for g in conf.groups:
        for c in g.covalently_coupled_groups:
            if id(c) not in gidx:
                raise OutOfModel("a covalently coupled group is not in the conformation's group list")
        for a in list(g.interaction_atoms_for_acids) + list(g.interaction_atoms_for_bases):
            if a.element == 'H' and not a.bonded_atoms:
                raise OutOfModel("a hydrogen interaction atom without bonds")
        glines.append("|".join([hx(g.type), hx(g.residue_type), hx(g.label), "1" if g.atom.type == 'atom' else "0", str(int(g.atom.res_num)),
                                str(common.bits(float(g.charge))), str(common.bits(float(g.model_pka))), "1" if g.titratable else "0",
                                "1" if g.atom.cysteine_bridge else "0", str(ai(g.atom)),
                                nats([ai(a) for a in g.interaction_atoms_for_acids]), nats([ai(a) for a in g.interaction_atoms_for_bases]),
                                nats([gidx[id(c)] for c in g.covalently_coupled_groups]),
                                str(common.bits(g.x)), str(common.bits(g.y)), str(common.bits(g.z))]))
    return (";".join(alines) or "-", ";".join(glines) or "-")


def real_records(conf):
    """what calculate_pka left on the groups, partners as indices into conf.groups"""
    gidx = {id(g): i for i, g in enumerate(conf.groups)}
    out = []
    for g in conf.groups:
        def dets(t):
            res = []
            for d in g.determinants[t]:
                partner = d.group.group if type(d.group).__name__ == 'Iterative' else d.group
                res.append((gidx.get(id(partner), -1), float(d.value)))
            return res
        ctg = g.coupled_titrating_group
        out.append(dict(nv=int(g.num_volume), buried=float(g.buried), evol=float(g.energy_volume), eloc=float(g.energy_local),
                        sc=dets('sidechain'), bb=dets('backbone'), cb=dets('coulomb'), pka=float(g.pka_value),
                        ctg=(gidx.get(id(ctg), -1) if ctg is not None else None), label=g.label))
    return out


def parse_model(resp):
    if resp == "-":
        return []
    out = []
    for rec in resp.split(";"):
        f = rec.split("|")
        if len(f) != 9:
            raise common.Infra("scoring model: malformed record " + rec[:80])

        def dets(s):
            if s == "-":
                return []
            return [(int(x.split(":")[0]), common.unbits(int(x.split(":")[1]))) for x in s.split(",")]
        out.append(dict(nv=int(f[0]), buried=common.unbits(int(f[1])), evol=common.unbits(int(f[2])), eloc=common.unbits(int(f[3])),
                        sc=dets(f[4]), bb=dets(f[5]), cb=dets(f[6]), pka=common.unbits(int(f[7])), ctg=(None if f[8] == "-" else int(f[8]))))
    return out


def same(a, b, tol):
    if tol == 0:
        return common.bits(a) == common.bits(b) or a == b
    return abs(a - b) <= tol


def compare(real, model, tol=0.0):
    """differences between the real records and the model's; [] if none"""
    diffs = []
    if len(real) != len(model):
        return ["group count %d vs %d" % (len(real), len(model))]
    for i, (r, m) in enumerate(zip(real, model)):
        lab = r.get("label", str(i))
        if r["nv"] != m["nv"]:
            diffs.append("%s num_volume %d vs %d" % (lab, r["nv"], m["nv"]))
        for f in ("buried", "evol", "eloc", "pka"):
            if not same(r[f], m[f], tol):
                diffs.append("%s %s %r vs %r" % (lab, f, r[f], m[f]))
        for t in ("sc", "bb", "cb"):
            if [p for p, _ in r[t]] != [p for p, _ in m[t]]:
                diffs.append("%s %s partners %r vs %r" % (lab, t, [p for p, _ in r[t]], [p for p, _ in m[t]]))
            else:
                for (p, x), (_, y) in zip(r[t], m[t]):
                    if not same(x, y, tol):
                        diffs.append("%s %s[%d] %r vs %r" % (lab, t, p, x, y))
        if r["ctg"] != m["ctg"]:
            diffs.append("%s coupled_titrating_group %r vs %r" % (lab, r["ctg"], m["ctg"]))
    return diffs


class Recorder:
    """wraps ConformationContainer.calculate_pka for the duration of a `with` block: every call exports the state first
    and records the real result afterwards; `pairs` = [(conformation name, request parts or OutOfModel text, real records)]"""

    def __init__(self):
        self.pairs = []

    def __enter__(self):
        import propka.conformation_container as CC
        self.CC = CC
        self.orig = CC.ConformationContainer.calculate_pka
        rec = self

        def wrapped(conf, version, options):
            try:
                req = export(conf)
            except OutOfModel as e:
                req = str(e)
            shared = bool(getattr(conf.parameters, "shared_determinants", 0))
            rp = "1" if conf.parameters.remove_penalised_group else "0"
            rec.orig(conf, version, options)
            rec.pairs.append((conf.name, req, real_records(conf), rp, shared, type(version).__name__))
        CC.ConformationContainer.calculate_pka = wrapped
        return self

    def __exit__(self, *a):
        self.CC.ConformationContainer.calculate_pka = self.orig


def check_pairs(pairs, tol=0.0):
    """run the model on every recorded conformation; returns (n compared, n out-of-model, [(conf, diffs)])"""
    reqs, todo, skipped = [], [], 0
    for name, req, real, rp, shared, vname in pairs:
        if isinstance(req, str) or shared or vname != "VersionA":
            skipped += 1
            continue
        reqs.append("scoring run %s %s %s" % (rp, req[0], req[1]))
        todo.append((name, real))
    bad = []
    if reqs:
        outs = common.driver_batch(reqs)
        for (name, real), resp in zip(todo, outs):
            if resp == "bad-op":
                bad.append((name, ["the model rejected the request"]))
                continue
            d = compare(real, parse_model(resp), tol)
            if d:
                bad.append((name, d))
    return len(reqs), skipped, bad


class tie:
    """`with tie(ctx, what):` - every calculate_pka call of the real code made inside the block is recorded; on exit the
    compiled Lean scoring model is run on (a bounded, de-duplicated sample of) the recorded conformations and the
    agreement becomes an obligation of the check.  Discrete results (counts, determinant partners and order, coupled
    titrating groups) are compared exactly, numbers to 1e-9; the evidence also says how many conformations were
    bit-identical."""

    def __init__(self, ctx, what, limit=None):
        self.ctx, self.what = ctx, what
        self.limit = limit if limit is not None else (160 if ctx.quick() else 1500)
        self.rec = Recorder()

    def __enter__(self):
        self.rec.__enter__()
        return self

    def __exit__(self, et, ev, tb):
        self.rec.__exit__(et, ev, tb)
        if et is not None and not issubclass(et, Exception):
            return False
        ctx = self.ctx
        seen, sample = set(), []
        for p in self.rec.pairs:
            key = hash(p[1]) if not isinstance(p[1], str) else ("oom", p[1])
            if key in seen:
                continue
            seen.add(key)
            sample.append(p)
        # the largest conformations are the slowest and the least varied: keep a spread
        if len(sample) > self.limit:
            step = len(sample) / float(self.limit)
            sample = [sample[int(i * step)] for i in range(self.limit)]
        if not getattr(ctx, "driver_ok", True):
            ctx.oblige("correspondence: Lean scoring model = real calculate_pka", False, "driver not built")
            return False
        n, skipped, bad = check_pairs(sample, tol=1e-9)
        exact = 0
        if n and not bad:
            _, _, inexact = check_pairs(sample, tol=0.0)
            exact = n - len(inexact)
        ctx.count("scoring: conformations recorded", len(self.rec.pairs))
        ctx.count("scoring: distinct conformations compared with the Lean model", n)
        ctx.count("scoring: bit-identical", exact)
        ctx.count("scoring: outside the model (shared_determinants, other versions, unexportable state)", skipped)
        ngroups = sum(len(p[2]) for p in sample)
        ndets = sum(len(r["sc"]) + len(r["bb"]) + len(r["cb"]) for p in sample for r in p[2])
        ctx.count("scoring: groups compared", ngroups)
        ctx.count("scoring: determinants compared", ndets)
        ctx.oblige("correspondence: Lean scoring model (the whole of calculate_pka: desolvation, backbone, ion, reorganisation, pair loop, "
                   "iterative scheme, totals, coupling penalties) = real calculate_pka on %d distinct conformations of %s (%d groups, %d "
                   "determinants; counts/partners/order exact, numbers 1e-9)" % (n, self.what, ngroups, ndets),
                   not bad, "; ".join("%s: %s" % (c, "; ".join(d[:3])) for c, d in bad[:2])[:600])
        self.bad = bad
        return False
