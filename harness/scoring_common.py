"""Whole-pipeline correspondence for the scoring phase: the state a conformation holds when
`ConformationContainer.calculate_pka` starts is exported, the compiled Lean model `Scoring.score` (parameters
regenerated from /repo) computes every group's record from it, and the result is compared with what the real
`calculate_pka` left on the groups - counts and partners exactly, numbers by bit pattern (or to 1e-9 when asked)."""
from . import common


def hx(s):
    return s.encode("latin-1", "replace").hex() or ""


def nats(xs):
    return ",".join(str(x) for x in xs) if xs else "-"


class OutOfModel(Exception):
    pass


def export(conf):
    """the request line for one conformation (before calculate_pka), plus the group objects in order"""
    atoms = list(conf.atoms)
    idx = {id(a): i for i, a in enumerate(atoms)}
    gidx = {id(g): i for i, g in enumerate(conf.groups)}

    def ai(a):
        if id(a) not in idx:
            raise OutOfModel("an interaction or bonded atom is not in the conformation's atom list")
        return idx[id(a)]
    alines = []
    for a in atoms:
        alines.append("|".join([hx(a.element), hx(a.name), hx(a.group_type or ""), nats([ai(b) for b in a.bonded_atoms]),
                                str(common.bits(a.x)), str(common.bits(a.y)), str(common.bits(a.z)), str(int(a.res_num)), hx(a.chain_id)]))
    glines = []
    for g in conf.groups:
        for c in g.covalently_coupled_groups:
            if id(c) not in gidx:
                raise OutOfModel("a covalently coupled group is not in the conformation's group list")
        for a in list(g.interaction_atoms_for_acids) + list(g.interaction_atoms_for_bases):
            if a.element == 'H' and not a.bonded_atoms:
                raise OutOfModel("a hydrogen interaction atom without bonds")
        glines.append("|".join([hx(g.type), hx(g.residue_type), hx(g.label), "1" if g.atom.type == 'atom' else "0", str(int(g.atom.res_num)),
                                str(common.bits(float(g.charge))), str(common.bits(float(g.model_pka))), "1" if g.titratable else "0",
                                "1" if g.atom.cysteine_bridge else "0", str(ai(g.atom)),
                                nats([ai(a) for a in g.interaction_atoms_for_acids]), nats([ai(a) for a in g.interaction_atoms_for_bases]),
                                nats([gidx[id(c)] for c in g.covalently_coupled_groups]),
                                str(common.bits(g.x)), str(common.bits(g.y)), str(common.bits(g.z))]))
    return (";".join(alines) or "-", ";".join(glines) or "-")


def snapshot(conf):
    """the state a conformation holds when calculate_pka starts, as plain Python data (the same content `export` writes)"""
    atoms = list(conf.atoms)
    idx = {id(a): i for i, a in enumerate(atoms)}
    gidx = {id(g): i for i, g in enumerate(conf.groups)}
    A = [(a.element, a.name, a.group_type or "", tuple(idx[id(b)] for b in a.bonded_atoms if id(b) in idx), (a.x, a.y, a.z), (a.res_num, a.chain_id)) for a in atoms]
    G = [(g.type, g.residue_type, float(g.charge), float(g.model_pka), bool(g.titratable), bool(g.atom.cysteine_bridge), idx.get(id(g.atom), -1),
          tuple(idx.get(id(a), -1) for a in g.interaction_atoms_for_acids), tuple(idx.get(id(a), -1) for a in g.interaction_atoms_for_bases),
          tuple(gidx.get(id(c), -1) for c in g.covalently_coupled_groups), (g.x, g.y, g.z), g.label) for g in conf.groups]
    return A, G


class Snapshots:
    """records `snapshot(conf)` of every conformation whose calculate_pka is called inside the `with` block"""

    def __init__(self):
        self.snaps = []

    def __enter__(self):
        import propka.conformation_container as CC
        self.CC = CC
        self.orig = CC.ConformationContainer.calculate_pka
        me = self

        def wrapped(conf, version, options):
            me.snaps.append((conf.name, snapshot(conf)))
            return me.orig(conf, version, options)
        CC.ConformationContainer.calculate_pka = wrapped
        return self

    def __exit__(self, *a):
        self.CC.ConformationContainer.calculate_pka = self.orig


def far_extension_problems(old, new, P, R=20.0):
    """the hypotheses of the Lean structure `FarExtension` (Props/C05.lean), evaluated on two recorded states: `old` (a part alone)
    and `new` (the part followed by another part); [] if they all hold"""
    import propka.energy as E
    (A, G), (A2, G2) = old, new
    probs = []
    na, ng = len(A), len(G)
    if len(A2) < na or len(G2) < ng:
        return ["the second state has fewer atoms or groups"]
    if A2[:na] != A:
        k = next(i for i in range(na) if A2[i] != A[i])
        probs.append("atom tables differ at index %d: %r vs %r" % (k, A[k][:4], A2[k][:4]))
    if [g[:11] for g in G2[:ng]] != [g[:11] for g in G]:
        k = next(i for i in range(ng) if G2[i][:11] != G[i][:11])
        probs.append("group tables differ at index %d (%s)" % (k, G[k][11]))
    for g in G:
        if any(not (0 <= a < na) for a in g[7] + g[8]) or not (0 <= g[6] < na):
            probs.append("old group %s refers to an atom outside the old table" % g[11])
    for a in A:
        if any(not (0 <= b < na) for b in a[3]):
            probs.append("an old atom is bonded to an atom outside the old table")
            break
    for g in G2[ng:]:
        if any(a < na for a in g[7] + g[8]):
            probs.append("new group %s has an old interaction atom" % g[11])
        if g[0] == "BBC" and (not g[7] or not g[8]):
            probs.append("new BBC group %s without interaction atoms" % g[11])
    r2 = R * R
    oldpts = [a[4] for a in A] + [g[10] for g in G]
    newpts = [a[4] for a in A2[na:]] + [g[10] for g in G2[ng:]]
    dmin = min([sum((p - q) ** 2 for p, q in zip(x, y)) for x in oldpts for y in newpts] or [float("inf")])
    if dmin < r2:
        probs.append("an old and a new atom or centre are only %.3f A apart" % dmin ** 0.5)
    cuts = [P.desolv_cutoff_squared <= r2, P.buried_cutoff_squared <= r2, P.coulomb_cutoff2_squared <= r2, P.coulomb_cutoff2 <= R,
            E.UNK_BACKBONE_DISTANCE1 <= R] + [v[2] <= R for v in P.backbone_NH_hydrogen_bond.values()] + [v[2] <= R for v in P.backbone_CO_hydrogen_bond.values()]
    if not all(cuts):
        probs.append("a cut-off of the parameter set exceeds %g A" % R)
    return probs


def setup_records(conf):
    """(queries, real results) of the group set-up: class name and defining atom of every group, and what setup_atoms left
    (centre as bit patterns, interaction atoms for acids / for bases as indices into conf.atoms)"""
    idx = {id(a): i for i, a in enumerate(conf.atoms)}
    qs, real = [], []
    for g in conf.groups:
        if id(g.atom) not in idx:
            raise OutOfModel("a group's atom is not in the conformation's atom list")
        qs.append("%s|%d" % (hx(type(g).__name__), idx[id(g.atom)]))
        try:
            real.append(("%d:%d:%d" % (common.bits(g.x), common.bits(g.y), common.bits(g.z)),
                         nats([idx[id(a)] for a in g.interaction_atoms_for_acids]), nats([idx[id(a)] for a in g.interaction_atoms_for_bases]),
                         type(g).__name__, g.label))
        except KeyError:
            raise OutOfModel("an interaction atom is not in the conformation's atom list")
    return qs, real


def real_records(conf):
    """what calculate_pka left on the groups, partners as indices into conf.groups"""
    gidx = {id(g): i for i, g in enumerate(conf.groups)}
    out = []
    for g in conf.groups:
        def dets(t):
            res = []
            for d in g.determinants[t]:
                partner = d.group.group if type(d.group).__name__ == 'Iterative' else d.group
                res.append((gidx.get(id(partner), -1), float(d.value)))
            return res
        ctg = g.coupled_titrating_group
        out.append(dict(nv=int(g.num_volume), buried=float(g.buried), evol=float(g.energy_volume), eloc=float(g.energy_local),
                        sc=dets('sidechain'), bb=dets('backbone'), cb=dets('coulomb'), pka=float(g.pka_value),
                        ctg=(gidx.get(id(ctg), -1) if ctg is not None else None), label=g.label))
    return out


def parse_model(resp):
    if resp == "-":
        return []
    out = []
    for rec in resp.split(";"):
        f = rec.split("|")
        if len(f) != 9:
            raise common.Infra("scoring model: malformed record " + rec[:80])

        def dets(s):
            if s == "-":
                return []
            return [(int(x.split(":")[0]), common.unbits(int(x.split(":")[1]))) for x in s.split(",")]
        out.append(dict(nv=int(f[0]), buried=common.unbits(int(f[1])), evol=common.unbits(int(f[2])), eloc=common.unbits(int(f[3])),
                        sc=dets(f[4]), bb=dets(f[5]), cb=dets(f[6]), pka=common.unbits(int(f[7])), ctg=(None if f[8] == "-" else int(f[8]))))
    return out


def same(a, b, tol):
    if tol == 0:
        return common.bits(a) == common.bits(b) or a == b
    return abs(a - b) <= tol


def compare(real, model, tol=0.0):
    """differences between the real records and the model's; [] if none"""
    diffs = []
    if len(real) != len(model):
        return ["group count %d vs %d" % (len(real), len(model))]
    for i, (r, m) in enumerate(zip(real, model)):
        lab = r.get("label", str(i))
        if r["nv"] != m["nv"]:
            diffs.append("%s num_volume %d vs %d" % (lab, r["nv"], m["nv"]))
        for f in ("buried", "evol", "eloc", "pka"):
            if not same(r[f], m[f], tol):
                diffs.append("%s %s %r vs %r" % (lab, f, r[f], m[f]))
        for t in ("sc", "bb", "cb"):
            if [p for p, _ in r[t]] != [p for p, _ in m[t]]:
                diffs.append("%s %s partners %r vs %r" % (lab, t, [p for p, _ in r[t]], [p for p, _ in m[t]]))
            else:
                for (p, x), (_, y) in zip(r[t], m[t]):
                    if not same(x, y, tol):
                        diffs.append("%s %s[%d] %r vs %r" % (lab, t, p, x, y))
        if r["ctg"] != m["ctg"]:
            diffs.append("%s coupled_titrating_group %r vs %r" % (lab, r["ctg"], m["ctg"]))
    return diffs


class Recorder:
    """wraps ConformationContainer.calculate_pka for the duration of a `with` block: every call exports the state first
    and records the real result afterwards; `pairs` = [(conformation name, request parts or OutOfModel text, real records)]"""

    def __init__(self):
        self.pairs = []
        self.setups = []
        self.setups_skipped = 0
        self.couplings = []
        self.ligands = []
        self.pipes = []
        self.pipe_cap = 250
        self.pipes_skipped = 0
        self.pre = {}

    def __enter__(self):
        import propka.conformation_container as CC
        import propka.input as PI
        from . import pipeline_common as PC
        self.CC = CC
        self.PI = PI
        self.orig = CC.ConformationContainer.calculate_pka
        self.orig_precheck = PI.protein_precheck
        rec = self

        def precheck(conformations, names):
            # read_molecule_file calls this right after top_up_conformations: the atoms as the set-up pipeline receives them
            for n in names:
                c = conformations[n]
                if len(rec.pipes) >= rec.pipe_cap:
                    continue        # enough conformations recorded for the pipeline comparison of this check
                try:
                    rec.pre[id(c)] = (c, PC.pre_request(c))
                except OutOfModel as e:
                    rec.pre[id(c)] = (c, e)
            return rec.orig_precheck(conformations, names)
        PI.protein_precheck = precheck

        def wrapped(conf, version, options):
            try:
                req = export(conf)
            except OutOfModel as e:
                req = str(e)
            try:
                # with common_charge_centre the centres of covalently coupled groups are overwritten after set-up
                # (set_common_charge_centres): outside the set-up model, counted as skipped
                cr = coupling_request(conf) if conf.groups else None
                if cr is not None:
                    rec.couplings.append((conf.name,) + cr)
                    lr = ligand_request(conf, cr)
                    if lr is not None:
                        rec.ligands.append((conf.name,) + lr)
                if getattr(conf.parameters, "common_charge_centre", 0):
                    rec.setups_skipped += 1
                else:
                    rec.setups.append((conf.name, req[0] if not isinstance(req, str) else None) + setup_records(conf))
            except OutOfModel:
                rec.setups_skipped += 1
            shared = bool(getattr(conf.parameters, "shared_determinants", 0))
            rp = "1" if conf.parameters.remove_penalised_group else "0"
            pre = rec.pre.pop(id(conf), None)
            pipe = None
            if pre is not None and pre[0] is conf:
                try:
                    if isinstance(pre[1], Exception):
                        raise pre[1]
                    if PC.prep_fingerprint(conf.parameters) != PC.shipped_fingerprint():
                        raise OutOfModel("set-up parameters differ from the shipped file")
                    mo = conf.molecular_container.options
                    if isinstance(req, str):
                        raise OutOfModel(req)
                    pipe = [conf.name, pre[1], rp, "1" if getattr(mo, "protonate_all", False) else "0", PC.to_arg(mo), PC.export_ext(conf, req)]
                except OutOfModel:
                    rec.pipes_skipped += 1
            rec.orig(conf, version, options)
            real = real_records(conf)
            rec.pairs.append((conf.name, req, real, rp, shared, type(version).__name__))
            if pipe is not None:
                rec.pipes.append(tuple(pipe) + (real, (not shared) and type(version).__name__ == "VersionA"))
        CC.ConformationContainer.calculate_pka = wrapped
        return self

    def __exit__(self, *a):
        self.CC.ConformationContainer.calculate_pka = self.orig
        self.PI.protein_precheck = self.orig_precheck
        self.pre = {}


def check_pairs(pairs, tol=0.0):
    """run the model on every recorded conformation; returns (n compared, n out-of-model, [(conf, diffs)])"""
    reqs, todo, skipped = [], [], 0
    for name, req, real, rp, shared, vname in pairs:
        if isinstance(req, str) or shared or vname != "VersionA":
            skipped += 1
            continue
        reqs.append("scoring run %s %s %s" % (rp, req[0], req[1]))
        todo.append((name, real))
    bad = []
    if reqs:
        outs = common.driver_batch(reqs)
        for (name, real), resp in zip(todo, outs):
            if resp == "bad-op":
                bad.append((name, ["the model rejected the request"]))
                continue
            d = compare(real, parse_model(resp), tol)
            if d:
                bad.append((name, d))
    return len(reqs), skipped, bad


def params_dump():
    """the same listing `scoring params` prints, computed from the current Parameters object and module constants"""
    import ast
    import inspect
    import textwrap
    import propka.parameters as PM
    import propka.energy as E
    import propka.determinants as D
    import propka.iterative as IT
    import propka.group as G
    from propka.input import read_parameter_file
    P = read_parameter_file("propka.cfg", PM.Parameters())
    b = lambda x: str(common.bits(float(x)))
    fl = lambda xs: ",".join(b(x) for x in xs)
    ep = [P.Nmin, P.Nmax, P.desolvationSurfaceScalingFactor, P.desolvationPrefactor, P.desolvationAllowance, P.coulomb_cutoff1, P.coulomb_cutoff2,
          E.UNK_DIELECTRIC1, E.UNK_DIELECTRIC2, E.UNK_PKA_SCALING1, E.UNK_BACKBONE_DISTANCE1, E.UNK_BACKBONE_DISTANCE2, E.UNK_PKA_SCALING2,
          E.UNK_FANGLE_MIN, E.MIN_DISTANCE_4TH]
    tree = ast.parse(textwrap.dedent(inspect.getsource(G.Group.calculate_total_pka)))
    fixed = [n.value.value for n in ast.walk(tree) if isinstance(n, ast.Assign) and isinstance(n.value, ast.Constant) and isinstance(n.value.value, float)]
    sc = P.sidechain_cutoffs
    cut = [P.desolv_cutoff_squared, P.buried_cutoff_squared, P.coulomb_cutoff2_squared, P.VanDerWaalsVolume['C4'], P.sidechain_interaction,
           sc.default[0], sc.default[1], E.COMBINED_NUM_BURIED_MAX, E.SEPARATE_NUM_BURIED_MAX, IT.UNK_MIN_VALUE, D.FANGLE_MIN, fixed[0] if fixed else float('nan')]
    s3 = lambda d: ";".join("%s:%s:%s:%s" % (hx(k), b(v[0]), b(v[1]), b(v[2])) for k, v in d.items())
    im = P.interaction_matrix
    return " ".join([
        "ep=" + fl(ep), "cut=" + fl(cut),
        "exc=" + fl([P.COO_HIS_exception, P.OCO_HIS_exception, P.CYS_HIS_exception, P.CYS_CYS_exception]),
        "vdw=" + ";".join("%s:%s" % (hx(k), b(v)) for k, v in P.VanDerWaalsVolume.items()),
        "sc=" + ";".join("%s:%s:%s:%s" % (hx(a), hx(c), b(sc.dictionary[a][c][0]), b(sc.dictionary[a][c][1])) for a in sc.dictionary for c in sc.dictionary[a]),
        "nh=" + s3(P.backbone_NH_hydrogen_bond), "co=" + s3(P.backbone_CO_hydrogen_bond),
        "im=" + ";".join("%s:%s:%d" % (hx(a), hx(c), ord(str(im.dictionary[a][c])) if len(str(im.dictionary[a][c])) == 1 else ord('?')) for a in im.dictionary for c in im.dictionary[a]),
        "lists=" + "|".join(",".join(hx(x) for x in l) for l in (P.angular_dependent_sidechain_interactions, P.base_list, P.exclude_sidechain_interactions,
                                                                    P.backbone_reorganisation_list, list(P.ions.keys()))),
        "minBond=%d" % int(P.min_bond_distance_for_hydrogen_bonds), "rp=%s" % ("true" if P.remove_penalised_group else "false"),
        "shared=%s" % ("true" if P.shared_determinants else "false")])


def coupling_request(conf):
    """request for the covalent-coupling model and the real coupling lists (indices into conf.groups); None when an atom's
    `.group` is not the last group of the conformation built on it (then the model's reading of `atom.group` does not apply)"""
    atoms = list(conf.atoms)
    idx = {id(a): i for i, a in enumerate(atoms)}
    gidx = {id(g): i for i, g in enumerate(conf.groups)}
    last = {}
    for i, g in enumerate(conf.groups):
        last[id(g.atom)] = i
    for a in atoms:
        g = getattr(a, "group", None)
        if g is not None and gidx.get(id(g)) != last.get(id(a)):
            return None
    alines = []
    for a in atoms:
        # the name field carries the SYBYL type here
        alines.append("|".join([hx(a.element), hx(a.sybyl_type or ""), hx(""), nats([idx[id(b)] for b in a.bonded_atoms if id(b) in idx]),
                                "0", "0", "0", str(int(a.res_num)), hx(a.chain_id)]))
    glines = ["%d|%d" % (idx[id(g.atom)], 1 if g.titratable else 0) for g in conf.groups]
    real = ";".join(nats([gidx[id(c)] for c in g.covalently_coupled_groups if id(c) in gidx]) for g in conf.groups)
    return ("setup cov %s %d %s" % (";".join(alines) or "-", int(conf.parameters.coupling_max_number_of_bonds), ";".join(glines) or "-"), real)


def ligand_request(conf, coupling_req):
    """request for the ligand-classification model (same atom table as the coupling request: SYBYL type in the name field) and
    the real classes: for every hetero atom that is no ion, the class name of the group it defines ('-' if none)"""
    if coupling_req is None or getattr(conf.parameters, "ligand_typing", "") != "groups":
        return None
    atoms = list(conf.atoms)
    ions = set(conf.parameters.ions.keys())
    gof = {}
    for g in conf.groups:
        gof[id(g.atom)] = g
    qs, real = [], []
    for i, a in enumerate(atoms):
        if a.type != 'hetatm' or a.element == 'H' or a.res_name.strip() in ions:
            continue
        g = gof.get(id(a))
        if g is not None and type(g).__name__ in ("NtermGroup", "CtermGroup"):
            continue
        qs.append(str(i))
        real.append(hx(type(g).__name__) if g is not None else "-")
    if not qs:
        return None
    atab = coupling_req[0].split(" ")[2]
    return ("setup lig %s %s" % (atab, ",".join(qs)), ";".join(real))


def check_setups(setups):
    """run the set-up model on the recorded conformations; returns (n groups compared, n unknown classes, [(conf, label, what)])"""
    reqs, todo = [], []
    for name, atoms, qs, real in setups:
        if atoms is None or not qs:
            continue
        reqs.append("setup run %s %s" % (atoms, ";".join(qs)))
        todo.append((name, real))
    n, unknown, bad = 0, 0, []
    if reqs:
        outs = common.driver_batch(reqs)
        for (name, real), resp in zip(todo, outs):
            recs = resp.split(";") if resp not in ("-", "bad-op") else []
            if len(recs) != len(real):
                bad.append((name, "?", "the model answered %d of %d groups (%s)" % (len(recs), len(real), resp[:40])))
                continue
            for r, m in zip(real, recs):
                if m == "unknown":
                    unknown += 1
                    bad.append((name, r[4], "group class %s is not in the set-up model" % r[3]))
                    continue
                f = m.split("|")
                n += 1
                if f[0] != r[0]:
                    bad.append((name, r[4], "%s centre %s, model %s (mean of atoms %s)" % (r[3], r[0], f[0], f[1])))
                elif f[2] != r[1] or f[3] != r[2]:
                    bad.append((name, r[4], "%s interaction atoms acids %s / bases %s, model %s / %s" % (r[3], r[1], r[2], f[2], f[3])))
    return n, unknown, bad


class tie:
    """`with tie(ctx, what):` - every calculate_pka call of the real code made inside the block is recorded; on exit the
    compiled Lean scoring model is run on (a bounded, de-duplicated sample of) the recorded conformations and the
    agreement becomes an obligation of the check.  Discrete results (counts, determinant partners and order, coupled
    titrating groups) are compared exactly, numbers to 1e-9; the evidence also says how many conformations were
    bit-identical."""

    def __init__(self, ctx, what, limit=None):
        self.ctx, self.what = ctx, what
        self.limit = limit if limit is not None else (160 if ctx.quick() else 1500)
        self.rec = Recorder()
        self.rec.pipe_cap = 120 if ctx.quick() else 3000

    def __enter__(self):
        self.rec.__enter__()
        return self

    def __exit__(self, et, ev, tb):
        self.rec.__exit__(et, ev, tb)
        if et is not None and not issubclass(et, Exception):
            return False
        ctx = self.ctx
        seen, sample = set(), []
        for p in self.rec.pairs:
            key = hash(p[1]) if not isinstance(p[1], str) else ("oom", p[1])
            if key in seen:
                continue
            seen.add(key)
            sample.append(p)
        # the largest conformations are the slowest and the least varied: keep a spread
        if len(sample) > self.limit:
            step = len(sample) / float(self.limit)
            sample = [sample[int(i * step)] for i in range(self.limit)]
        if not getattr(ctx, "driver_ok", True):
            ctx.oblige("correspondence: Lean scoring model = real calculate_pka", False, "driver not built")
            return False
        # read-back of the translator: what the compiled model holds is what the current Parameters object holds
        got = common.driver_batch(["scoring params"])[0]
        want = params_dump()
        if got != want:
            gd, wd = dict(x.split("=", 1) for x in got.split(" ")), dict(x.split("=", 1) for x in want.split(" "))
            diff = [k for k in wd if gd.get(k) != wd[k]]
        else:
            diff = []
        ctx.oblige("translator read-back: the scoring parameters compiled into the Lean driver = the current Parameters object and module constants (bit patterns)",
                   not diff, "fields that differ: %r" % (diff,))
        n, skipped, bad = check_pairs(sample, tol=1e-9)
        exact = 0
        if n and not bad:
            _, _, inexact = check_pairs(sample, tol=0.0)
            exact = n - len(inexact)
        ctx.count("scoring: conformations recorded", len(self.rec.pairs))
        ctx.count("scoring: distinct conformations compared with the Lean model", n)
        ctx.count("scoring: bit-identical", exact)
        ctx.count("scoring: outside the model (shared_determinants, other versions, unexportable state)", skipped)
        ngroups = sum(len(p[2]) for p in sample)
        ndets = sum(len(r["sc"]) + len(r["bb"]) + len(r["cb"]) for p in sample for r in p[2])
        ctx.count("scoring: groups compared", ngroups)
        ctx.count("scoring: determinants compared", ndets)
        ctx.oblige("correspondence: Lean scoring model (the whole of calculate_pka: desolvation, backbone, ion, reorganisation, pair loop, "
                   "iterative scheme, totals, coupling penalties) = real calculate_pka on %d distinct conformations of %s (%d groups, %d "
                   "determinants; counts/partners/order exact, numbers 1e-9)" % (n, self.what, ngroups, ndets),
                   not bad, "; ".join("%s: %s" % (c, "; ".join(d[:3])) for c, d in bad[:2])[:600])
        self.bad = bad
        # the set-up pipeline: from the atoms after top_up_conformations to the state calculate_pka starts from, and on to the records
        from . import pipeline_common as PC
        seenp, psample = set(), []
        for p in self.rec.pipes:
            key = hash((p[1], p[2], p[3], p[4]))
            if key not in seenp:
                seenp.add(key)
                psample.append(p)
        plimit = 24 if ctx.quick() else 600
        if len(psample) > plimit:
            step = len(psample) / float(plimit)
            psample = [psample[int(i * step)] for i in range(plimit)]
        npipe, nps, pbad = PC.check_pipes(psample)
        ctx.count("pipeline: distinct conformations taken from the parsed atoms to the scoring input by the Lean model", npipe)
        ctx.count("pipeline: of these also scored by the Lean model after its own set-up", nps)
        ctx.count("pipeline: atoms compared (incl. built hydrogens)", sum(len(p[5][0].split(";")) for p in psample))
        ctx.count("pipeline: hetero atoms typed", sum(1 for p in psample for a in p[1].split(";") if a.startswith("1|")))
        ctx.count("pipeline: conformations with --protonate-all", sum(1 for p in psample if p[3] == "1"))
        ctx.count("pipeline: conformations outside the model (other parameter files, pre-bonded atoms)", self.rec.pipes_skipped)
        if npipe or self.rec.pipes_skipped == 0:
            ctx.oblige("correspondence: Lean set-up pipeline (bonding by cells, SYBYL typing, pi electrons, protonation, group extraction and "
                       "set-up, sort_atoms, covalent coupling; then Scoring.score) = the state the real conformation holds when calculate_pka starts "
                       "(every atom incl. built hydrogens: order, name, bonds, coordinates bit for bit, group type, SYBYL type; every group: class, "
                       "label, charge, model pKa, flags, centre, interaction atoms, coupling) and the records calculate_pka leaves, on %d distinct "
                       "conformations of %s" % (npipe, self.what),
                       not pbad, "; ".join("%s: %s" % (c, "; ".join(d[:2])) for c, d in pbad[:2])[:700])
        self.pbad = pbad
        # the group set-up (centres and interaction atoms) through the set-up model, on the same conformations
        seen2, ssample = set(), []
        for s in self.rec.setups:
            key = hash((s[1], tuple(s[2])))
            if key not in seen2:
                seen2.add(key)
                ssample.append(s)
        if len(ssample) > self.limit:
            step = len(ssample) / float(self.limit)
            ssample = [ssample[int(i * step)] for i in range(self.limit)]
        ns, unknown, sbad = check_setups(ssample)
        ctx.count("set-up: groups compared with the Lean model", ns)
        ctx.count("set-up: conformations outside the model (common_charge_centre, unexportable state)", self.rec.setups_skipped)
        seen3, csample = set(), []
        for c in self.rec.couplings:
            if hash(c[1]) not in seen3:
                seen3.add(hash(c[1]))
                csample.append(c)
        csample = csample[:self.limit]
        cbad = []
        if csample:
            couts = common.driver_batch([c[1] for c in csample])
            cbad = [(c[0], c[2][:80], o[:80]) for c, o in zip(csample, couts) if o != c[2]]
        ctx.count("coupling: conformations compared with the Lean model", len(csample))
        ctx.count("coupling: conformations with covalently coupled groups", sum(1 for c in csample if any(x != "-" for x in c[2].split(";"))))
        ctx.oblige("correspondence: Lean covalent-coupling model (find_covalently_coupled_groups: titratable groups within the configured number of "
                   "bonds and of equal SYBYL type, coupled in the order the code couples them) = real coupling lists of %d conformations" % len(csample),
                   not cbad, str(cbad[:2])[:400])
        seen4, lsample = set(), []
        for l in self.rec.ligands:
            if hash(l[1]) not in seen4:
                seen4.add(hash(l[1]))
                lsample.append(l)
        lsample = lsample[:self.limit]
        lbad, natoms = [], 0
        if lsample:
            louts = common.driver_batch([l[1] for l in lsample])
            for l, o in zip(lsample, louts):
                natoms += len(l[2].split(";"))
                if o != l[2]:
                    d = [(i, bytes.fromhex(x).decode() if x != "-" else None, bytes.fromhex(y).decode() if y not in ("-", "bad-op") else None)
                         for i, (x, y) in enumerate(zip(l[2].split(";"), o.split(";"))) if x != y][:3]
                    lbad.append((l[0], d))
        ctx.count("ligand classification: hetero atoms compared with the Lean model", natoms)
        if lsample:
            ctx.oblige("correspondence: Lean ligand-classification model (is_ligand_group_by_groups on SYBYL types and bonds) = class of the group "
                       "each hetero atom defines (%d atoms in %d conformations)" % (natoms, len(lsample)), not lbad, str(lbad[:2])[:400])
        ctx.oblige("correspondence: Lean set-up model (setup_atoms of every group class, set_center, ring search) = real groups: centre (bit "
                   "patterns) and both interaction-atom lists of %d groups in %d conformations" % (ns, len(ssample)),
                   not sbad, "; ".join("%s %s: %s" % b for b in sbad[:3])[:500])
        return False
