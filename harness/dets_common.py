"""shared by C02 / C08 / C15: real group objects <-> the determinant-record model"""
from . import common


def hx(s):
    return s.encode("latin1").hex()


def partner(g):
    """identity of a determinant's partner as Group.__eq__ sees it: the printed label, plus the residue number for hetero groups"""
    a = getattr(g, "atom", None)
    if a is not None and getattr(a, "type", "atom") != "atom":
        return "%s#%d" % (g.label, a.res_num)
    return g.label


def enc_dets(dets):
    if not dets:
        return "-"
    return ",".join("%s:%s:%d" % (hx(partner(d.group)), hx(d.label), common.bits(d.value)) for d in dets)


def enc_group(g):
    return "|".join([hx(g.label), str(common.bits(g.model_pka)), str(common.bits(g.energy_volume)), str(common.bits(g.energy_local)),
                     str(common.bits(g.pka_value)), "1" if g.atom.cysteine_bridge else "0",
                     enc_dets(g.determinants['sidechain']), enc_dets(g.determinants['backbone']), enc_dets(g.determinants['coulomb'])])


def real_dets(dets):
    return [(partner(d.group), d.label, common.bits(d.value)) for d in dets]


def dec_dets(s):
    if s == "-":
        return []
    out = []
    for e in s.split(","):
        g, l, v = e.split(":")
        out.append((bytes.fromhex(g).decode("latin1"), bytes.fromhex(l).decode("latin1"), int(v)))
    return out


def stub_groups(rnd, n, labels=None):
    """n stub protein groups with random determinants towards each other and towards bystanders"""
    from propka.group import Group
    from propka.atom import Atom
    from propka.determinant import Determinant
    groups = []
    for i in range(n):
        a = Atom()
        a.type, a.res_name, a.res_num, a.chain_id = 'atom', rnd.choice(["ASP", "GLU", "LYS", "HIS"]), i + 1 if labels is None else labels[i], 'A'
        g = Group(a)
        g.model_pka = rnd.choice([3.8, 4.5, 10.5, 6.5])
        g.energy_volume = rnd.choice([0.0, rnd.uniform(0, 3)])
        g.energy_local = rnd.choice([0.0, rnd.uniform(-1, 1)])
        g.charge = -1.0 if a.res_name in ("ASP", "GLU") else 1.0
        g.titratable = True
        groups.append(g)
    by = []
    for i in range(3):
        a = Atom()
        a.type, a.res_name, a.res_num, a.chain_id = 'atom', "SER", 90 + i, 'A'
        by.append(Group(a))
    vals = [0.5, -0.5, 0.25, 1.0, -1.0, 0.85]
    for g in groups:
        for t in ('sidechain', 'backbone', 'coulomb'):
            for _ in range(rnd.randint(0, 4)):
                partner = rnd.choice(groups + by)
                if partner is g:
                    continue
                v = rnd.choice(vals) if rnd.random() < 0.5 else rnd.uniform(-2, 2)
                g.determinants[t].append(Determinant(partner, v))
        g.calculate_total_pka()
    return groups
