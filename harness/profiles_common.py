"""shared by C09 / C10: group records of a real conformation in the form the profile model reads"""
import math
from fractions import Fraction

from . import common


def tgroups(conf):
    out = []
    for g in conf.groups:
        out.append((float(g.charge), float(g.pka_value), float(g.model_pka), bool(g.titratable), [float(d.value) for d in g.determinants['coulomb']]))
    return out


def enc_groups(gs):
    if not gs:
        return "-"
    return ";".join("%d:%d:%d:%d:%s" % (common.bits(q), common.bits(pk), common.bits(pm), 1 if t else 0, ",".join(str(common.bits(c)) for c in cl) or "-")
                    for q, pk, pm, t, cl in gs)


def spec_charge(q, pk, ph):
    r = 10.0 ** (q * (pk - ph))
    return q * (r / (1.0 + r))


def spec_charges(gs, ph):
    unf = sum(spec_charge(q, pm, ph) for q, pk, pm, t, cl in gs if t)
    fol = sum(spec_charge(q, pk, ph) for q, pk, pm, t, cl in gs if t)
    return unf, fol


def exact_steps(mn, mx, step):
    """floor((max-min)/step + 1e-9) in exact arithmetic on the decimal values the user typed"""
    a, b, s = Fraction(repr(mn)), Fraction(repr(mx)), Fraction(repr(step))
    return math.floor((b - a) / s + Fraction(1, 10 ** 9))


GRIDS = [(0.0, 14.0, 0.1), (0.0, 14.0, 0.05), (0.0, 0.3, 0.1), (2.0, 9.0, 0.25), (0.0, 14.0, 1.0), (1.5, 12.5, 0.5), (0.0, 14.0, 0.2),
         (3.0, 3.0, 0.1), (-2.0, 16.0, 0.3), (0.0, 1.0, 0.01), (6.9, 7.1, 0.001), (0.0, 14.0, 0.7), (0.0, 14.0, 0.125)]
WINDOWS = [(0.0, 14.0, 1.0), (0.0, 14.0, 2.0), (2.0, 10.0, 0.5), (1.0, 13.0, 3.0), (0.0, 14.0, 0.1), (0.5, 13.5, 1.0), (4.0, 4.0, 1.0),
           (0.1, 0.7, 0.1), (0.3, 9.1, 0.2), (2.2, 7.9, 0.3), (0.1, 13.9, 0.6), (6.95, 7.05, 0.01), (0.0, 14.0, 0.125), (1.0, 5.0, 0.25)]
