"""Worker for C03: run a history of PROPKA calls in this (fresh) interpreter and print one JSON
digest per call.  argv: <json file with {"garbage": n, "cwd": path|None, "calls": [{"pdb":..., "args":[...], "mode": "stream"|"path"}]}>"""
import hashlib
import json
import logging
import os
import sys
import tempfile

sys.path.insert(0, os.path.dirname(os.path.dirname(os.path.abspath(__file__))))
logging.disable(logging.CRITICAL)


def digest(o):
    recs = {c: [[g["label"], g["type"], repr(g["pka"]), repr(g["model_pka"]), repr(g["e_vol"]), repr(g["e_loc"]), repr(g["buried"]),
                 sorted((l, repr(v)) for l, v in g["sidechain"]), sorted((l, repr(v)) for l, v in g["backbone"]),
                 sorted((l, repr(v)) for l, v in g["coulomb"]), sorted(g["coupled"]), g["penalised"]] for g in gs] for c, gs in o.confs.items()}
    blob = json.dumps([o.error, recs, o.text], sort_keys=True)
    return dict(error=o.error, sha=hashlib.sha1(blob.encode()).hexdigest(), ngroups={c: len(g) for c, g in o.confs.items()},
                summary=[(g["label"], round(g["pka"], 6)) for g in o.confs.get("AVR", [])][:400], text=o.text)


def main():
    spec = json.load(open(sys.argv[1]))
    junk = [object() for _ in range(spec.get("garbage", 0))]      # perturb the allocator -> object addresses
    junk2 = [[i] for i in range(spec.get("garbage", 0) % 977)]
    from harness import observe
    if spec.get("cwd"):
        os.chdir(spec["cwd"])
    decoy = None
    if spec.get("decoys"):
        # a working directory that holds files named like the package's own data files, with different content: a run that
        # does not name them must not read them
        import propka
        decoy = tempfile.TemporaryDirectory(prefix="c03cwd")
        pkg = os.path.dirname(os.path.abspath(propka.__file__))
        for fn in os.listdir(pkg):
            src = os.path.join(pkg, fn)
            if fn.endswith((".py", ".pyc")) or not os.path.isfile(src):
                continue
            if fn.endswith(".cfg"):
                import re
                txt = re.sub(r"^(model_pkas\s+(?:ASP|HIS|LYS)\s+)(\d+)", lambda m: m.group(1) + str(int(m.group(2)) + 1), open(src).read(), flags=re.M)
                txt = re.sub(r"^(sidechain_interaction\s+)\S+", r"\g<1>0.55", txt, flags=re.M)
            elif fn.endswith(".json"):
                txt = "{}"
            else:
                txt = ""
            open(os.path.join(decoy.name, fn), "w").write(txt)
        os.chdir(decoy.name)
    out = []
    if spec.get("writeset"):
        # the module/class-level state this fresh interpreter's runs write: nothing the checking process did earlier (reading a
        # parameter while regenerating tables, say) can have filled a cache first
        from harness.props import c03
        for call in spec["calls"]:
            before = c03.snapshot()
            observe.run(call["pdb"], call["args"], want_text=False)
            after = c03.snapshot()
            out.append(sorted(k for k in after if before.get(k) != after[k]))
        print(json.dumps(out))
        return
    for call in spec["calls"]:
        if call.get("mode") == "main":
            # one invocation of the command-line entry point with several inputs: the .pka text of every input (date line removed)
            import contextlib
            import hashlib
            import io
            import propka.run
            with tempfile.TemporaryDirectory(prefix="c03m") as d:
                here = os.getcwd()
                os.chdir(d)
                try:
                    names = []
                    for k, text in enumerate(call["files"]):
                        names.append("in%d.pdb" % k)
                        open(names[-1], "w").write(text)
                    argv = list(call["args"])
                    for n in names[:-1]:
                        argv += ["-f", n]
                    argv.append(names[-1])
                    err = None
                    import logging
                    root = logging.getLogger("")
                    before = list(root.handlers)
                    try:
                        with contextlib.redirect_stdout(io.StringIO()):
                            propka.run.main([argv])
                    except BaseException as e:  # noqa: BLE001
                        err = type(e).__name__
                    for h in list(root.handlers):
                        if h not in before:
                            root.removeHandler(h)
                    texts = []
                    for n in names:
                        f = n[:-4] + ".pka"
                        texts.append("\n".join(open(f).read().split("\n")[1:]) if os.path.exists(f) else None)
                finally:
                    os.chdir(here)
            out.append(dict(sha=hashlib.sha256(repr((err, texts)).encode()).hexdigest(), error=err,
                            files=[None if t is None else hashlib.sha256(t.encode()).hexdigest() for t in texts],
                            summary=[], text=None, ngroups={}))
            continue
        if call.get("mode") == "path":
            with tempfile.TemporaryDirectory(prefix="c03") as d:
                p = os.path.join(d, "input.pdb")
                open(p, "w").write(call["pdb"])
                o = observe.run(None, call["args"], name=p, stream=False)
        else:
            o = observe.run(call["pdb"], call["args"])
        out.append(digest(o))
    del junk, junk2
    if decoy is not None:
        os.chdir("/")
        decoy.cleanup()
    print(json.dumps(out))


if __name__ == "__main__":
    main()
