"""Translator: re-reads /repo's working tree (imports the current `propka` package, walks ASTs)
and prints the values the theorems depend on as Lean literals into lean/Propka/Gen/*.lean.
Deterministic; only rewrites a file whose content changed (so lake rebuilds only what moved)."""
from pathlib import Path

GENERATORS = []


def generator(fn):
    GENERATORS.append(fn)
    return fn


def lean_str(s: str) -> str:
    return '"' + s.replace("\\", "\\\\").replace('"', '\\"').replace("\n", "\\n") + '"'


def generate(outdir: Path) -> int:
    outdir.mkdir(parents=True, exist_ok=True)
    changed = 0
    for g in GENERATORS:
        name, text = g()
        p = outdir / (name + ".lean")
        if not p.exists() or p.read_text() != text:
            p.write_text(text)
            changed += 1
    return changed


if __name__ == "__main__":
    import sys
    sys.path.insert(0, str(Path(__file__).resolve().parent.parent))
    print(generate(Path(__file__).resolve().parent.parent / "lean" / "Propka" / "Gen"))
