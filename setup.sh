#!/bin/sh
# Build the framework from files on disk only (offline): regenerate Gen/ from /repo, build the
# Lean library (models, proofs, property theorems) and the compiled model driver.
set -e
cd "$(dirname "$0")"
/venv/bin/python -m harness.gen_tables
cd lean
lake build
