#!/venv/bin/python
"""Write seeded/README.md from the meta.json of every seeded change (run after tools/run_seeded.py)."""
import json
from pathlib import Path

ROOT = Path(__file__).resolve().parent.parent


def main():
    rows = []
    for d in sorted((ROOT / "seeded").iterdir()):
        mf = d / "meta.json"
        if not mf.exists():
            continue
        m = json.loads(mf.read_text())
        v = m.get("verification", {})
        caught = []
        for c, r in v.get("checks_on_patched", {}).items():
            if r.get("exit") == 1:
                sig = r.get("signature") or ""
                nf = any("no-failing-input-found" in l for l in r.get("lines", []))
                caught.append("%s (%s)" % (c, (sig + (", no-failing-input-found" if nf else "")) or "violation"))
        confirmed = v.get("demo_on_unchanged") == 0 and v.get("tests_pass") and v.get("demo_on_patched") == 1
        quiet = all(x == 0 for x in v.get("checks_on_restored", {}).values())
        rows.append((d.name, m.get("summary", "").replace("\n", " ").replace("|", "/"), m.get("needs", "").replace("\n", " ").replace("|", "/"),
                     "yes" if confirmed else "NO", ", ".join(caught) or "MISSED", "yes" if quiet else "NO", v.get("repo_head", "?"), v.get("tests_on_patched", "?")))
    out = ["# Seeded changes", "",
           "One realistic regression per property, produced by a fresh sub-agent that was given only the text of the property and a",
           "scratch worktree of the repository (nothing from `/verif`). Each directory holds `patch.diff`, the agent's demonstration",
           "`demo.py <checkout>` (exit 0: property holds, exit 1: violated) and `meta.json` (what the change does, what it needs in order",
           "to manifest, and the `verification` block written by `tools/run_seeded.py`). None of these changes is committed to `/repo`.", "",
           "`tools/run_seeded.py seeded/<id>` confirms a change (demo exits 0 on the unchanged tree; the 49-test suite passes with the",
           "patch; demo exits 1 with the patch), runs the property's quick check on the patched tree, removes the patch and runs the",
           "check again (it must be quiet). To replay by hand: `git -C /repo apply seeded/<id>/patch.diff; ./check <id>; git -C /repo checkout -- .`", "",
           "| id | change | needs | confirmed | caught by (signature of the first replay) | quiet after removal | repo HEAD | tests with patch |",
           "|---|---|---|---|---|---|---|---|"]
    for r in rows:
        out.append("| %s | %s | %s | %s | %s | %s | %s | %s |" % (r[0], r[1][:400], r[2][:400], r[3], r[4], r[5], r[6], r[7]))
    out += ["", "Changes that the quick checks missed when first run, and what was strengthened, are listed in DESIGN.md section 0.", ""]
    (ROOT / "seeded" / "README.md").write_text("\n".join(out))
    print("\n".join(out[-len(rows) - 4:]))


if __name__ == "__main__":
    main()
