#!/venv/bin/python
"""Confirm a seeded change and run the checks against it.

    tools/run_seeded.py <dir with patch.diff, demo.py, meta.json> [--checks C01,C13] [--keep]

Steps (everything against /repo, which is restored afterwards):
  1. demo.py against the unchanged tree must exit 0
  2. git apply patch.diff; the baseline test-suite must still pass (49 tests)
  3. demo.py against the patched tree must exit 1
  4. run ./check <property> (and any --checks) on the patched tree, record exit codes and VIOLATION lines
  5. git checkout -- . ; run ./check <property> again to confirm it is quiet on the restored tree
Results are written into meta.json under "verification".
"""
import json
import subprocess
import sys
import time
from pathlib import Path

ROOT = Path(__file__).resolve().parent.parent
REPO = "/repo"


def sh(cmd, cwd=None, timeout=3600):
    p = subprocess.run(cmd, cwd=cwd, capture_output=True, text=True, timeout=timeout)
    return p.returncode, (p.stdout + p.stderr)


def main():
    d = Path(sys.argv[1]).resolve()
    meta = json.loads((d / "meta.json").read_text())
    prop = meta["property"]
    checks = [prop] + [c for c in meta.get("also_checks", []) if c != prop]
    if "--checks" in sys.argv:
        checks = sys.argv[sys.argv.index("--checks") + 1].split(",")
    rc, out = sh(["git", "-C", REPO, "status", "--porcelain"])
    if out.strip():
        print("refusing: /repo has uncommitted changes:\n" + out)
        return 2
    head = sh(["git", "-C", REPO, "rev-parse", "--short", "HEAD"])[1].strip()
    checks_only = "--checks-only" in sys.argv
    old = meta.get("verification", {})
    if checks_only and not (old.get("repo_head") == head and old.get("demo_on_unchanged") == 0 and old.get("tests_pass") and old.get("demo_on_patched") == 1):
        print("no stored confirmation for this /repo HEAD: running the full confirmation")
        checks_only = False
    ver = dict(at=time.strftime("%Y-%m-%d %H:%M:%S"), repo_head=head)
    if checks_only:
        # the confirmation (demo on both trees, test-suite with the patch) was made at this /repo HEAD and is kept
        for k in ("demo_on_unchanged", "tests_on_patched", "tests_pass", "demo_on_patched"):
            ver[k] = old[k]
        ver["confirmed_at"] = old.get("confirmed_at", old.get("at"))
    else:
        rc, out = sh(["/venv/bin/python", str(d / "demo.py"), REPO])
        ver["demo_on_unchanged"] = rc
    try:
        rc, out = sh(["git", "-C", REPO, "apply", str(d / "patch.diff")])
        if rc != 0:
            ver["apply"] = out[-400:]
            print("patch does not apply:", out)
            return 2
        if not checks_only:
            rc, out = sh(["/venv/bin/python", "-m", "pytest", "-q", "-p", "no:cacheprovider", "tests"], cwd=REPO)
            ver["tests_on_patched"] = out.strip().split("\n")[-1]
            ver["tests_pass"] = rc == 0
            rc, out = sh(["/venv/bin/python", str(d / "demo.py"), REPO])
            ver["demo_on_patched"] = rc
        ver["checks_on_patched"] = {}
        for c in checks:
            rc, out = sh([str(ROOT / "check"), c], cwd=ROOT)
            lines = [l for l in out.split("\n") if l.startswith(("VIOLATION", "KNOWN-FINDING", c + " "))]
            ver["checks_on_patched"][c] = dict(exit=rc, lines=[l[:300] for l in lines])
            # keep the replay of the first violation next to the seeded change
            for l in lines:
                if l.startswith("VIOLATION") and "replay=" in l:
                    rp = Path(l.split("replay=")[1].split()[0])
                    if rp.exists():
                        rep = json.loads(rp.read_text())
                        ver["checks_on_patched"][c]["signature"] = rep.get("signature")
                        ver["checks_on_patched"][c]["what"] = rep.get("what", "")[:400]
                    break
    finally:
        sh(["git", "-C", REPO, "checkout", "--", "."])
        # restore evidence: the evidence files must come from runs against the unchanged tree
        sh(["git", "-C", str(ROOT), "checkout", "--", "evidence"])
    ver["checks_on_restored"] = {}
    for c in checks:
        rc, out = sh([str(ROOT / "check"), c], cwd=ROOT)
        ver["checks_on_restored"][c] = rc
    meta["verification"] = ver
    (d / "meta.json").write_text(json.dumps(meta, indent=1))
    print(json.dumps(ver, indent=1))
    ok = ver["demo_on_unchanged"] == 0 and ver.get("tests_pass") and ver.get("demo_on_patched") == 1
    caught = any(v["exit"] == 1 for v in ver["checks_on_patched"].values())
    print("CONFIRMED" if ok else "NOT-CONFIRMED", "CAUGHT" if caught else "MISSED")
    return 0


if __name__ == "__main__":
    sys.exit(main())
